//! C39 — configuration loading never crashes and rejects unsafe thresholds.
//!
//! Events: the result (or panic) of `toml::from_str::<Config>` + `Config::check`
//! (what `Config::from_file` and `ntp-ctl validate` do with the file contents),
//! run in-process on generated documents; for a sub-sample also through the
//! file-based public entry point `Config::from_args`.
//! Oracle (independent of the configuration deserialisers):
//!  * no panic / worker death in either build profile;
//!  * every bound of an accepted `StepThreshold` (single-step / startup) is >= 0;
//!  * an accepted document whose threshold literal (found by an independent parse
//!    of the text into a generic `toml::Table`) is NaN is a violation (a NaN cannot
//!    be seen in the accepted fixed-point value any more, so the literal is judged).
//! The accumulated-step-panic-threshold (a plain duration, single form only) is
//! counted but not judged: the statement's second sentence is read as being about
//! the two-form `StepThreshold` keys.

use crate::core::{Case, Profiles, Prop, Tier};
use ntpd::verif::cfg::{Bound, Loaded, load_and_check, load_file_and_check, step_threshold_from_toml};
use serde_json::json;
use std::sync::OnceLock;

pub static PROP: Prop = Prop {
    id: "C39",
    level: "exploration",
    rule: "case = one TOML document: (a) grid: every threshold key x {single, forward, backward, both, sub-table} x every \
           scalar class (nan, +-inf, negatives, zero, tiny, huge, ints, strings, bools) plus fixed hostile-count documents; \
           (b) grammar: random documents over the whole schema (all sections, all seven source modes) with a per-document \
           rate of hostile scalars / wrong types; (c) byte/line/token mutations of the repository's example configurations. \
           Each document is loaded with toml::from_str::<Config> + Config::check under panic capture in both build profiles. \
           Non-trivial = the document parsed as TOML (so the schema deserialisers ran); distinct signature = (kind, sections \
           present, source modes, threshold forms and scalar classes, accepted/rejected).",
    assumptions: &[
        "the document text is loaded in-process (toml::from_str::<Config> + Config::check) and, for a sub-sample, via Config::from_args on a temp file; the ntp-ctl binary itself is not spawned",
        "an independent generic parse (toml::Table) of the same text locates the threshold literals; the toml crate's parser is trusted",
        "accumulated-step-panic-threshold (plain duration) is counted, not judged",
    ],
    profiles: Profiles::Both,
    cases: |t| t.pick(80_000, 3_000_000),
    budget_s: |t| t.pick(40, 400),
    run,
    min_nontrivial: 500,
    required_counters: &[
        "docs_loaded",
        "accepted",
        "rejected",
        "threshold_bounds_judged",
        "threshold_single_form_accepted",
        "threshold_per_direction_form_accepted",
        "hostile_threshold_literal",
        "mutated_examples",
        "grammar_docs",
        "file_route",
    ],
    exhaustive: false,
    crash_is_violation: true,
};

// ---------------------------------------------------------------- scalars

const THRESHOLD_KEYS: &[&str] = &["single-step-panic-threshold", "startup-step-panic-threshold"];

/// hostile and benign scalar literals for thresholds (TOML text, class name)
const SCALARS: &[(&str, &str)] = &[
    ("nan", "nan"),
    ("+nan", "nan"),
    ("-nan", "nan"),
    ("inf", "pinf"),
    ("+inf", "pinf"),
    ("-inf", "ninf"),
    ("-5.0", "neg"),
    ("-5", "negint"),
    ("-1e-300", "negtiny"),
    ("-0.0", "negzero"),
    ("-1e300", "neghuge"),
    ("-9223372036854775808", "negint"),
    ("0", "zero"),
    ("0.0", "zero"),
    ("1e-320", "tiny"),
    ("1e-12", "tiny"),
    ("0.5", "pos"),
    ("1800", "posint"),
    ("86400.0", "pos"),
    ("2147483647.5", "edge"),
    ("2147483648.0", "edge"),
    ("4294967296.0", "huge"),
    ("1e300", "huge"),
    ("1.7976931348623157e308", "huge"),
    ("9223372036854775807", "hugeint"),
    ("\"inf\"", "strinf"),
    ("\"-inf\"", "str"),
    ("\"nan\"", "str"),
    ("\"\"", "str"),
    ("true", "bool"),
    ("[1.0]", "array"),
    ("1979-05-27T07:32:00Z", "date"),
];

const FORMS: usize = 7;

fn threshold_value(form: usize, a: &str, b: &str) -> String {
    match form {
        0 => a.to_string(),
        1 => format!("{{ forward = {a} }}"),
        2 => format!("{{ backward = {a} }}"),
        3 => format!("{{ forward = {a}, backward = {b} }}"),
        4 => format!("{{ backward = {b}, forward = {a} }}"),
        5 => format!("{{ forward = {a}, forward = {b} }}"),
        _ => format!("{{ forward = {a}, sideways = {b} }}"),
    }
}

fn esc(s: &str) -> String {
    let mut o = String::from("\"");
    for ch in s.chars() {
        match ch {
            '"' => o.push_str("\\\""),
            '\\' => o.push_str("\\\\"),
            '\n' => o.push_str("\\n"),
            '\r' => o.push_str("\\r"),
            '\t' => o.push_str("\\t"),
            c if (c as u32) < 0x20 || c as u32 == 0x7f => o.push_str(&format!("\\u{:04X}", c as u32)),
            c => o.push(c),
        }
    }
    o.push('"');
    o
}

fn repo_root() -> String {
    std::env::var("VERIF_REPO").ok().filter(|s| !s.is_empty()).unwrap_or_else(|| "/repo".into())
}

struct G<'a, 'b> {
    c: &'a mut Case<'b>,
    /// per-document probability (in 1/1000) that a value is replaced by a hostile one
    hostile: u64,
    hostile_used: u32,
}

impl G<'_, '_> {
    fn h(&mut self) -> bool {
        let r = self.c.rng.chance(self.hostile, 1000);
        if r {
            self.hostile_used += 1;
        }
        r
    }
    fn wrong_type(&mut self) -> String {
        match self.c.rng.below(9) {
            0 => "true".into(),
            1 => "\"x\"".into(),
            2 => "1.5".into(),
            3 => "-1".into(),
            4 => "[]".into(),
            5 => "{}".into(),
            6 => "nan".into(),
            7 => "1979-05-27".into(),
            _ => "[[1, 2], [3]]".into(),
        }
    }
    fn int(&mut self, lo: i64, hi: i64) -> String {
        if self.h() {
            match self.c.rng.below(10) {
                0 => "-1".into(),
                1 => "0".into(),
                2 => "9223372036854775807".into(),
                3 => "-9223372036854775808".into(),
                4 => "4294967296".into(),
                5 => "256".into(),
                6 => "65536".into(),
                7 => "18446744073709551615".into(),
                8 => format!("{}", self.c.rng.edge_i64()),
                _ => self.wrong_type(),
            }
        } else {
            format!("{}", self.c.rng.range(lo, hi))
        }
    }
    fn float_lit(x: f64) -> String {
        if x.is_nan() {
            "nan".into()
        } else if x == f64::INFINITY {
            "inf".into()
        } else if x == f64::NEG_INFINITY {
            "-inf".into()
        } else {
            let s = format!("{x:e}");
            // TOML floats need a digit after the dot if there is a dot; `1e5` is fine
            s
        }
    }
    fn float(&mut self, lo: f64, hi: f64) -> String {
        if self.h() {
            match self.c.rng.below(8) {
                0 => "nan".into(),
                1 => "inf".into(),
                2 => "-inf".into(),
                3 => "-1.0".into(),
                4 => "0.0".into(),
                5 => Self::float_lit(self.c.rng.any_f64()),
                6 => "1e308".into(),
                _ => self.wrong_type(),
            }
        } else if self.c.rng.chance(1, 5) {
            format!("{}", self.c.rng.range(lo.ceil() as i64, hi.floor().max(lo.ceil()) as i64))
        } else {
            Self::float_lit(self.c.rng.f64_range(lo, hi))
        }
    }
    fn boolean(&mut self) -> String {
        if self.h() {
            self.wrong_type()
        } else if self.c.rng.bool() {
            "true".into()
        } else {
            "false".into()
        }
    }
    fn hostile_string(&mut self) -> String {
        match self.c.rng.below(12) {
            0 => esc(""),
            1 => esc(&"a".repeat(self.c.rng.usize(200, 5000))),
            2 => esc("::::"),
            3 => esc("[::1]:99999"),
            4 => esc("host:notaport"),
            5 => esc(":123"),
            6 => esc("ünïcödé.example:123"),
            7 => esc("a\u{0}b"),
            8 => esc("1.2.3.4:5:6"),
            9 => esc("[::1"),
            10 => esc("\u{202e}evil\n"),
            _ => self.wrong_type(),
        }
    }
    fn host(&mut self, with_port: bool) -> String {
        if self.h() {
            return self.hostile_string();
        }
        let n = self.c.rng.below(1000);
        let h = match self.c.rng.below(6) {
            0 => format!("ntp{n}.example.com"),
            1 => format!("10.0.{}.{}", n % 256, self.c.rng.below(256)),
            2 => format!("2001:db8::{n:x}"),
            3 => format!("[2001:db8::{n:x}]:{}", self.c.rng.range(1, 65535)),
            4 => "localhost".into(),
            _ => format!("pool{n}.test"),
        };
        if with_port && !h.contains("::") && self.c.rng.bool() {
            esc(&format!("{h}:{}", self.c.rng.range(0, 65535)))
        } else {
            esc(&h)
        }
    }
    fn sockaddr(&mut self) -> String {
        if self.h() {
            return self.hostile_string();
        }
        match self.c.rng.below(4) {
            0 => esc(&format!("0.0.0.0:{}", self.c.rng.range(0, 65535))),
            1 => esc(&format!("[::]:{}", self.c.rng.range(0, 65535))),
            2 => esc(&format!("127.0.0.1:{}", self.c.rng.range(1, 65535))),
            _ => esc(&format!("[::1]:{}", self.c.rng.range(1, 65535))),
        }
    }
    fn path(&mut self) -> String {
        if self.h() {
            return self.hostile_string();
        }
        // never a path that exists as a device/fifo: only plain non-existing paths
        esc(&format!("/nonexistent/verif-c39/{}", self.c.rng.below(1000)))
    }
    fn ip(&mut self) -> String {
        if self.h() {
            return self.hostile_string();
        }
        if self.c.rng.bool() {
            esc(&format!("192.0.2.{}", self.c.rng.below(256)))
        } else {
            esc(&format!("2001:db8::{:x}", self.c.rng.below(65536)))
        }
    }
    fn subnet(&mut self) -> String {
        if self.h() {
            return match self.c.rng.below(6) {
                0 => esc("1.2.3.4/33"),
                1 => esc("::/129"),
                2 => esc("::ffff:1.2.3.4/95"),
                3 => esc("1.2.3.4"),
                4 => esc("1.2.3.4/-1"),
                _ => self.hostile_string(),
            };
        }
        match self.c.rng.below(4) {
            0 => esc(&format!("10.{}.0.0/{}", self.c.rng.below(256), self.c.rng.range(0, 32))),
            1 => esc(&format!("2001:db8:{:x}::/{}", self.c.rng.below(65536), self.c.rng.range(0, 128))),
            2 => esc(&format!("::ffff:10.0.0.0/{}", self.c.rng.range(96, 128))),
            _ => esc("0.0.0.0/0"),
        }
    }
    fn version(&mut self) -> String {
        if self.h() {
            return match self.c.rng.below(6) {
                0 => "3".into(),
                1 => "6".into(),
                2 => "-4".into(),
                3 => "\"AUTO\"".into(),
                4 => "4.0".into(),
                _ => self.wrong_type(),
            };
        }
        match self.c.rng.below(3) {
            0 => "4".into(),
            1 => "5".into(),
            _ => "\"auto\"".into(),
        }
    }
    fn versions(&mut self, nts: bool) -> String {
        let n = self.c.rng.below(4);
        let mut v = Vec::new();
        for _ in 0..n {
            v.push(if self.h() {
                match self.c.rng.below(4) {
                    0 => "2".to_string(),
                    1 => "256".to_string(),
                    2 => "-1".to_string(),
                    _ => self.wrong_type(),
                }
            } else {
                format!("{}", self.c.rng.range(if nts { 4 } else { 3 }, 5))
            });
        }
        format!("[{}]", v.join(", "))
    }
    fn poll(&mut self) -> String {
        if self.h() {
            return match self.c.rng.below(5) {
                0 => "127".into(),
                1 => "-128".into(),
                2 => "128".into(),
                3 => "-129".into(),
                _ => self.wrong_type(),
            };
        }
        format!("{}", self.c.rng.range(0, 17))
    }
    fn poll_limits(&mut self) -> String {
        match self.c.rng.below(4) {
            0 => format!("{{ min = {} }}", self.poll()),
            1 => format!("{{ max = {} }}", self.poll()),
            2 => format!("{{ min = {}, max = {} }}", self.poll(), self.poll()),
            _ => "{}".into(),
        }
    }
    fn maybe(&mut self, num: u64, den: u64) -> bool {
        self.c.rng.chance(num, den)
    }
}

#[derive(Default)]
struct Doc {
    text: String,
    shape: Vec<String>,
}

impl Doc {
    fn kv(&mut self, k: &str, v: String) {
        self.text.push_str(k);
        self.text.push_str(" = ");
        self.text.push_str(&v);
        self.text.push('\n');
    }
    fn header(&mut self, h: &str) {
        self.text.push('\n');
        self.text.push_str(h);
        self.text.push('\n');
        self.shape.push(h.to_string());
    }
}

fn gen_threshold(g: &mut G, d: &mut Doc, key: &str) {
    // mostly benign values so that many documents are accepted, hostile ones often
    let pick = |g: &mut G| -> (String, &'static str) {
        if g.c.rng.chance(1, 2) {
            let (t, cl) = *g.c.rng.pick(SCALARS);
            (t.to_string(), cl)
        } else {
            match g.c.rng.below(4) {
                0 => ("\"inf\"".to_string(), "strinf"),
                1 => (format!("{}", g.c.rng.range(0, 100000)), "posint"),
                2 => (G::float_lit(g.c.rng.log_uniform(1e-9, 1e9)), "pos"),
                _ => (G::float_lit(g.c.rng.any_f64()), "anyf"),
            }
        }
    };
    let form = if g.c.rng.chance(1, 3) { 0 } else { g.c.rng.below(5) as usize };
    let (a, ca) = pick(g);
    let (b, cb) = pick(g);
    d.kv(key, threshold_value(form, &a, &b));
    d.shape.push(format!("{key}:{form}:{ca}:{}", if form >= 3 { cb } else { "" }));
}

fn gen_source(g: &mut G, d: &mut Doc) {
    d.header("[[source]]");
    let mode = *g.c.rng.pick(&["server", "nts", "pool", "nts-pool", "sock", "pps", "csptp"]);
    if g.h() {
        let m = g.hostile_string();
        d.kv("mode", m);
    } else if !g.maybe(1, 60) {
        d.kv("mode", esc(mode));
    }
    d.shape.push(mode.to_string());
    let ca = format!("{}/ntp-proto/test-keys/testca.pem", repo_root());
    match mode {
        "server" | "nts" | "pool" | "nts-pool" => {
            if !g.maybe(1, 40) {
                let a = g.host(true);
                d.kv("address", a);
            }
            if g.maybe(1, 3) {
                let v = g.version();
                d.kv("ntp-version", v);
            }
            if (mode == "nts" || mode == "nts-pool") && g.maybe(1, 3) {
                let v = g.boolean();
                d.kv("enable-srv-resolution", v);
            }
            if (mode == "nts" || mode == "nts-pool") && g.maybe(1, 4) {
                let v = if g.c.rng.bool() && std::path::Path::new(&ca).is_file() { esc(&ca) } else { g.path() };
                d.kv("certificate-authority", v);
            }
            if (mode == "pool" || mode == "nts-pool") && g.maybe(2, 3) {
                let v = g.int(1, 8);
                d.kv("count", v);
            }
            if mode == "pool" && g.maybe(1, 3) {
                let n = g.c.rng.below(4);
                let ips: Vec<String> = (0..n).map(|_| g.ip()).collect();
                d.kv("ignore", format!("[{}]", ips.join(", ")));
            }
            if g.maybe(1, 4) {
                let v = g.poll_limits();
                d.kv("poll-interval-limits", v);
            }
            if g.maybe(1, 4) {
                let v = g.poll();
                d.kv("initial-poll-interval", v);
            }
        }
        "sock" | "pps" => {
            if !g.maybe(1, 40) {
                let v = g.path();
                d.kv("path", v);
            }
            if g.maybe(1, 6) {
                let v = g.float(1e-12, 1.0);
                d.kv("measurement_noise_estimate", v);
            }
            if !g.maybe(1, 6) {
                let v = g.float(1e-9, 1.0);
                d.kv("precision", v);
            }
            if g.maybe(1, 2) {
                let v = g.float(1e-9, 1.0);
                d.kv("accuracy", v);
            }
            if mode == "pps" && g.maybe(1, 2) {
                let v = g.float(0.001, 10.0);
                d.kv("period", v);
            }
        }
        _ => {
            if !g.maybe(1, 40) {
                let v = g.host(true);
                d.kv("address", v);
            }
            if g.maybe(1, 2) {
                let v = g.int(128, 239);
                d.kv("domain", v);
            }
            if g.maybe(1, 2) {
                let v = g.float(0.01, 100.0);
                d.kv("poll_interval", v);
            }
            if g.maybe(1, 2) {
                let v = g.float(0.01, 100.0);
                d.kv("response_interval", v);
            }
        }
    }
    if g.maybe(1, 50) {
        d.kv("unknown-key", "1".into());
    }
}

fn filter_list(g: &mut G) -> String {
    let n = g.c.rng.below(4);
    let f: Vec<String> = (0..n).map(|_| g.subnet()).collect();
    let action = if g.h() { g.hostile_string() } else { esc(*g.c.rng.pick(&["ignore", "deny"])) };
    if g.maybe(1, 30) {
        format!("{{ filter = [{}] }}", f.join(", "))
    } else {
        format!("{{ filter = [{}], action = {action} }}", f.join(", "))
    }
}

fn gen_server(g: &mut G, d: &mut Doc) {
    d.header("[[server]]");
    if !g.maybe(1, 40) {
        let v = g.sockaddr();
        d.kv("listen", v);
    }
    if g.maybe(1, 3) {
        let v = filter_list(g);
        d.kv("denylist", v);
    }
    if g.maybe(1, 3) {
        let v = filter_list(g);
        d.kv("allowlist", v);
    }
    if g.maybe(1, 3) {
        let v = g.int(0, 100000);
        d.kv("rate-limiting-cache-size", v);
    }
    if g.maybe(1, 3) {
        let v = g.int(0, 100000);
        d.kv("rate-limiting-cutoff-ms", v);
    }
    if g.maybe(1, 3) {
        let v = match g.c.rng.below(4) {
            0 => "true".to_string(),
            1 => "false".to_string(),
            2 => esc("ignore"),
            _ => {
                if g.h() {
                    g.hostile_string()
                } else {
                    esc("deny")
                }
            }
        };
        d.kv("require-nts", v);
    }
    if g.maybe(1, 3) {
        let v = g.versions(false);
        d.kv("accept-ntp-versions", v);
    }
}

fn gen_nts_ke(g: &mut G, d: &mut Doc) {
    d.header("[[nts-ke-server]]");
    if !g.maybe(1, 40) {
        let v = g.path();
        d.kv("certificate-chain-path", v);
    }
    if !g.maybe(1, 40) {
        let v = g.path();
        d.kv("private-key-path", v);
    }
    if !g.maybe(1, 40) {
        let v = g.sockaddr();
        d.kv("listen", v);
    }
    if g.maybe(1, 3) {
        let n = g.c.rng.below(3);
        let t: Vec<String> = (0..n).map(|_| if g.h() { g.hostile_string() } else { esc("token") }).collect();
        d.kv("accepted-pool-authentication-tokens", format!("[{}]", t.join(", ")));
    }
    if g.maybe(1, 3) {
        let v = g.int(0, 100000);
        d.kv("key-exchange-timeout-ms", v);
    }
    if g.maybe(1, 3) {
        let v = g.int(0, 10000);
        d.kv("concurrent-connections", v);
    }
    if g.maybe(1, 3) {
        let v = g.int(0, 10000);
        d.kv("longlived-connections", v);
    }
    if g.maybe(1, 2) {
        let v = g.int(0, 65535);
        d.kv("ntp-port", v);
    }
    if g.maybe(1, 3) {
        let v = g.host(true);
        d.kv("ntp-server", v);
    }
    if g.maybe(1, 2) {
        let v = g.versions(true);
        d.kv("accept-ntp-versions", v);
    }
}

const ALGO_F64: &[&str] = &[
    "precision-low-probability",
    "precision-high-probability",
    "precision-minimum-weight",
    "poll-interval-low-weight",
    "poll-interval-high-weight",
    "poll-interval-step-threshold",
    "delay-outlier-threshold",
    "initial-wander",
    "initial-frequency-uncertainty",
    "maximum-source-uncertainty",
    "range-statistical-weight",
    "range-delay-weight",
    "steer-offset-threshold",
    "steer-offset-leftover",
    "steer-frequency-threshold",
    "steer-frequency-leftover",
    "step-threshold",
    "slew-maximum-frequency-offset",
    "slew-minimum-duration",
    "maximum-frequency-steer",
];

fn gen_sync(g: &mut G, d: &mut Doc) {
    d.header("[synchronization]");
    if g.maybe(1, 2) {
        let v = g.int(0, 6);
        d.kv("minimum-agreeing-sources", v);
    }
    for key in THRESHOLD_KEYS {
        if g.maybe(3, 4) {
            gen_threshold(g, d, key);
        }
    }
    if g.maybe(1, 3) {
        let v = if g.c.rng.bool() {
            g.float(0.0, 10000.0)
        } else {
            let (t, _) = *g.c.rng.pick(SCALARS);
            t.to_string()
        };
        d.kv("accumulated-step-panic-threshold", v);
    }
    if g.maybe(1, 3) {
        let v = g.int(1, 16);
        d.kv("local-stratum", v);
    }
    if g.maybe(1, 3) {
        let v = if g.h() { g.hostile_string() } else { esc(*g.c.rng.pick(&["GPS", "PPS", "XNON", "X", "", "\u{10FFFF}\u{10FFFF}\u{10FFFF}\u{10FFFF}", "ééé"])) };
        d.kv("reference-id", v);
    }
    if g.maybe(1, 3) {
        let v = g.boolean();
        d.kv("warn-on-jump", v);
    }
    if g.maybe(1, 3) {
        d.header("[synchronization.algorithm]");
        let n = g.c.rng.below(6);
        let mut used = Vec::new();
        for _ in 0..n {
            let k = *g.c.rng.pick(ALGO_F64);
            if used.contains(&k) {
                continue;
            }
            used.push(k);
            let v = g.float(0.0, 10.0);
            d.kv(k, v);
        }
        if g.maybe(1, 3) {
            let v = g.int(1, 100);
            d.kv("precision-hysteresis", v);
        }
        if g.maybe(1, 3) {
            let v = g.int(1, 100);
            d.kv("poll-interval-hysteresis", v);
        }
        if g.maybe(1, 3) {
            let v = g.boolean();
            d.kv("ignore-server-dispersion", v);
        }
        if g.maybe(1, 3) {
            let v = g.float(0.0, 100.0);
            d.kv("meddling-threshold", v);
        }
    }
}

fn gen_misc(g: &mut G, d: &mut Doc) {
    if g.maybe(1, 2) {
        d.header("[observability]");
        if g.maybe(1, 2) {
            let v = if g.h() { g.hostile_string() } else { esc(*g.c.rng.pick(&["trace", "debug", "info", "warn", "error"])) };
            d.kv("log-level", v);
        }
        for k in ["log-path", "log-path-metrics-exporter", "observation-path"] {
            if g.maybe(1, 3) {
                let v = g.path();
                d.kv(k, v);
            }
        }
        if g.maybe(1, 3) {
            let v = g.boolean();
            d.kv("ansi-colors", v);
        }
        if g.maybe(1, 3) {
            let v = if g.c.rng.bool() { "0o666".to_string() } else { g.int(0, 511) };
            d.kv("observation-permissions", v);
        }
        if g.maybe(1, 3) {
            let v = g.sockaddr();
            d.kv("metrics-exporter-listen", v);
        }
    }
    if g.maybe(1, 3) {
        d.header("[source-defaults]");
        if g.maybe(1, 2) {
            let v = g.poll_limits();
            d.kv("poll-interval-limits", v);
        }
        if g.maybe(1, 2) {
            let v = g.poll();
            d.kv("initial-poll-interval", v);
        }
    }
    if g.maybe(1, 3) {
        d.header("[keyset]");
        if g.maybe(1, 2) {
            let v = g.int(0, 100);
            d.kv("stale-key-count", v);
        }
        if g.maybe(1, 2) {
            let v = g.int(0, 1000000);
            d.kv("key-rotation-interval", v);
        }
        if g.maybe(1, 2) {
            let v = g.path();
            d.kv("key-storage-path", v);
        }
    }
    if g.maybe(1, 4) {
        d.header("[csptp]");
        if g.maybe(1, 2) {
            let n = if g.h() { g.c.rng.below(12) } else { 8 };
            let b: Vec<String> = (0..n).map(|_| g.int(0, 255)).collect();
            d.kv("identity", format!("[{}]", b.join(", ")));
        }
        for k in ["priority_1", "priority_2"] {
            if g.maybe(1, 3) {
                let v = g.int(0, 255);
                d.kv(k, v);
            }
        }
        if g.maybe(1, 3) {
            let acc = if g.h() { g.hostile_string() } else { esc(*g.c.rng.pick(&["Reserved", "PS1", "PS2_5", "Unknown", "NS100", "MS1", "S1"])) };
            let v = format!(
                "{{ clock_class = {}, clock_accuracy = {acc}, offset_scaled_log_variance = {} }}",
                g.int(0, 255),
                g.int(0, 65535)
            );
            d.kv("clock_quality", v);
        }
        for k in ["ptp_timescale", "time_traceable", "frequency_traceable"] {
            if g.maybe(1, 4) {
                let v = g.boolean();
                d.kv(k, v);
            }
        }
    }
    if g.maybe(1, 10) {
        d.header("[[csptp-server]]");
        let v = if g.h() { g.hostile_string() } else { esc("any") };
        d.kv("interface", v);
    }
    if g.maybe(1, 60) {
        d.header("[clock]");
        d.kv("timestamp-mode", esc("software"));
    }
}

fn grammar_doc(c: &mut Case) -> Doc {
    let hostile = *c.rng.pick(&[0u64, 0, 0, 5, 20, 60, 200]);
    let mut g = G { c, hostile, hostile_used: 0 };
    let mut d = Doc::default();
    // top-level tables first or arrays first: TOML allows any order of headers
    let mut parts: Vec<u8> = vec![0];
    let ns = match g.c.rng.below(6) {
        0 => 0,
        1 | 2 => 1,
        3 => 2,
        4 => 4,
        _ => g.c.rng.range(3, 9),
    };
    for _ in 0..ns {
        parts.push(1);
    }
    for _ in 0..g.c.rng.below(3) {
        parts.push(2);
    }
    for _ in 0..(if g.c.rng.chance(1, 4) { g.c.rng.below(3) } else { 0 }) {
        parts.push(3);
    }
    if g.c.rng.chance(4, 5) {
        parts.push(4);
    }
    g.c.rng.shuffle(&mut parts);
    for p in parts {
        match p {
            0 => gen_misc(&mut g, &mut d),
            1 => gen_source(&mut g, &mut d),
            2 => gen_server(&mut g, &mut d),
            3 => gen_nts_ke(&mut g, &mut d),
            _ => gen_sync(&mut g, &mut d),
        }
    }
    d.shape.push(format!("h{}", g.hostile_used.min(3)));
    d
}

// ---------------------------------------------------------------- mutation of example configs

fn examples() -> &'static Vec<(String, String)> {
    static E: OnceLock<Vec<(String, String)>> = OnceLock::new();
    E.get_or_init(|| {
        let root = repo_root();
        let mut v = Vec::new();
        for rel in [
            "ntp.toml",
            "ntp.server.toml",
            "docs/examples/conf/ntp.toml.default",
            "config/nts.client.toml",
            "config/nts.server.toml",
            "config/ntp.demobilize.toml",
            "ntp-proto/test-keys/unsafe.nts.client.toml",
            "ntp-proto/test-keys/unsafe.nts.server.toml",
            "docs/examples/conf/ntpd-rs.service",
            "docs/examples/conf/ntpd-rs.preset",
            "docs/examples/conf/ntpd-rs-metrics.service",
        ] {
            if let Ok(s) = std::fs::read_to_string(format!("{root}/{rel}")) {
                v.push((rel.to_string(), s));
            }
        }
        v
    })
}

const SPLICE_LINES: &[&str] = &[
    "single-step-panic-threshold = { forward = nan }",
    "single-step-panic-threshold = { backward = -inf }",
    "startup-step-panic-threshold = { forward = -5.0, backward = 1 }",
    "startup-step-panic-threshold = nan",
    "single-step-panic-threshold = -1",
    "accumulated-step-panic-threshold = -1",
    "accumulated-step-panic-threshold = nan",
    "count = 9223372036854775807",
    "minimum-agreeing-sources = 9223372036854775807",
    "[synchronization.single-step-panic-threshold]",
    "forward = inf",
    "backward = nan",
    "[[source]]",
    "mode = \"pool\"",
    "mode = \"sock\"",
    "precision = nan",
    "address = \"[::1]:65536\"",
    "[synchronization]",
    "[synchronization.algorithm]",
    "meddling-threshold = nan",
    "initial-poll-interval = 127",
    "poll-interval-limits = { min = -128, max = 127 }",
];

const SPECIAL: &[u8] = b"[]{}=\"'#.,\n\\-+ 0123456789einfa_:";

fn mutate_example(c: &mut Case) -> (String, Vec<u8>, String) {
    let ex = examples();
    if ex.is_empty() {
        return ("<none>".into(), Vec::new(), "none".into());
    }
    let (name, text) = &ex[c.rng.below(ex.len() as u64) as usize];
    let mut b: Vec<u8> = text.clone().into_bytes();
    let n_mut = 1 + c.rng.below(4);
    let mut kinds = String::new();
    for _ in 0..n_mut {
        let k = c.rng.below(11);
        kinds.push((b'a' + k as u8) as char);
        if b.is_empty() {
            b.extend_from_slice(b"[synchronization]\n");
        }
        let len = b.len();
        match k {
            0 => {
                let i = c.rng.below(len as u64) as usize;
                b[i] ^= 1 << c.rng.below(8);
            }
            1 => {
                let i = c.rng.below(len as u64 + 1) as usize;
                let ch = if c.rng.bool() { *c.rng.pick(SPECIAL) } else { c.rng.u8() };
                b.insert(i, ch);
            }
            2 => {
                let i = c.rng.below(len as u64) as usize;
                let l = (1 + c.rng.below(12) as usize).min(len - i);
                b.drain(i..i + l);
            }
            3 => {
                // uncomment a commented line
                let s = String::from_utf8_lossy(&b).to_string();
                let mut lines: Vec<String> = s.lines().map(|l| l.to_string()).collect();
                let cands: Vec<usize> = lines.iter().enumerate().filter(|(_, l)| l.starts_with('#')).map(|(i, _)| i).collect();
                if !cands.is_empty() {
                    let i = *c.rng.pick(&cands);
                    lines[i] = lines[i].trim_start_matches('#').trim_start().to_string();
                }
                b = (lines.join("\n") + "\n").into_bytes();
            }
            4 => {
                // replace a numeric token with a hostile scalar
                let s = String::from_utf8_lossy(&b).to_string();
                let bytes = s.as_bytes();
                let mut toks = Vec::new();
                let mut i = 0;
                while i < bytes.len() {
                    if bytes[i].is_ascii_digit() && (i == 0 || matches!(bytes[i - 1], b' ' | b'=')) {
                        let st = i;
                        while i < bytes.len() && (bytes[i].is_ascii_digit() || bytes[i] == b'.') {
                            i += 1;
                        }
                        toks.push((st, i));
                    } else {
                        i += 1;
                    }
                }
                if !toks.is_empty() {
                    let (st, en) = *c.rng.pick(&toks);
                    let (t, _) = *c.rng.pick(SCALARS);
                    b = format!("{}{}{}", &s[..st], t, &s[en..]).into_bytes();
                }
            }
            5 => {
                // replace "inf" string
                let s = String::from_utf8_lossy(&b).to_string();
                let (t, _) = *c.rng.pick(SCALARS);
                b = s.replacen("\"inf\"", t, 1).into_bytes();
            }
            6 => {
                // splice a hostile line at a random line boundary
                let s = String::from_utf8_lossy(&b).to_string();
                let mut lines: Vec<String> = s.lines().map(|l| l.to_string()).collect();
                let i = c.rng.below(lines.len() as u64 + 1) as usize;
                lines.insert(i, c.rng.pick(SPLICE_LINES).to_string());
                b = (lines.join("\n") + "\n").into_bytes();
            }
            7 => {
                // duplicate or swap lines
                let s = String::from_utf8_lossy(&b).to_string();
                let mut lines: Vec<String> = s.lines().map(|l| l.to_string()).collect();
                if lines.len() >= 2 {
                    let i = c.rng.below(lines.len() as u64) as usize;
                    let j = c.rng.below(lines.len() as u64) as usize;
                    if c.rng.bool() {
                        let l = lines[i].clone();
                        lines.insert(j, l);
                    } else {
                        lines.swap(i, j);
                    }
                }
                b = (lines.join("\n") + "\n").into_bytes();
            }
            8 => {
                let i = c.rng.below(len as u64 + 1) as usize;
                b.truncate(i);
            }
            9 => {
                // deep nesting / long repetition at a value position
                let depth = *c.rng.pick(&[10usize, 100, 1000, 20000]);
                let open = if c.rng.bool() { "[" } else { "{ a = " };
                let close = if open == "[" { "]" } else { " }" };
                let mut s = String::from_utf8_lossy(&b).to_string();
                s.push_str("\nx = ");
                s.push_str(&open.repeat(depth));
                s.push('1');
                s.push_str(&close.repeat(depth));
                s.push('\n');
                b = s.into_bytes();
            }
            _ => {
                // replace the value of a threshold key by a generated form
                let s = String::from_utf8_lossy(&b).to_string();
                let key = *c.rng.pick(THRESHOLD_KEYS);
                let (a, _) = *c.rng.pick(SCALARS);
                let (bb, _) = *c.rng.pick(SCALARS);
                let form = c.rng.below(FORMS as u64) as usize;
                let lines: Vec<String> = s
                    .lines()
                    .map(|l| if l.starts_with(key) { format!("{key} = {}", threshold_value(form, a, bb)) } else { l.to_string() })
                    .collect();
                b = (lines.join("\n") + "\n").into_bytes();
            }
        }
    }
    (name.clone(), b, kinds)
}

// ---------------------------------------------------------------- grid

const FIXED_DOCS: &[&str] = &[
    // sums of pool counts
    "[[source]]\nmode = \"pool\"\naddress = \"a.test\"\ncount = 9223372036854775807\n[[source]]\nmode = \"pool\"\naddress = \"b.test\"\ncount = 9223372036854775807\n[[source]]\nmode = \"pool\"\naddress = \"c.test\"\ncount = 9223372036854775807\n",
    "[[source]]\nmode = \"pool\"\naddress = \"a.test\"\ncount = 9223372036854775807\n[[source]]\nmode = \"nts-pool\"\naddress = \"b.test\"\ncount = 9223372036854775807\n[[source]]\nmode = \"server\"\naddress = \"c.test\"\n[[source]]\nmode = \"server\"\naddress = \"d.test\"\n",
    "[[source]]\nmode = \"pool\"\naddress = \"a.test\"\ncount = 0\n",
    "[synchronization]\nminimum-agreeing-sources = 9223372036854775807\n[[source]]\nmode = \"server\"\naddress = \"a.test\"\n",
    "[source-defaults]\npoll-interval-limits = { min = 127, max = -128 }\ninitial-poll-interval = 127\n",
    "[synchronization]\nreference-id = \"\u{10FFFF}\u{10FFFF}\u{10FFFF}\u{10FFFF}\"\nlocal-stratum = 1\n",
    "[[nts-ke-server]]\ncertificate-chain-path = \"x\"\nprivate-key-path = \"y\"\nlisten = \"0.0.0.0:4460\"\nconcurrent-connections = 9223372036854775807\naccept-ntp-versions = [4, 5]\nntp-port = 65535\n",
    "[[server]]\nlisten = \"0.0.0.0:123\"\nrate-limiting-cutoff-ms = 9223372036854775807\nrate-limiting-cache-size = 9223372036854775807\n",
    "[[source]]\nmode = \"csptp\"\naddress = \"x\"\npoll_interval = 1e300\nresponse_interval = 1e-320\n",
    "[[source]]\nmode = \"sock\"\npath = \"/x\"\nprecision = 1e-320\naccuracy = 1.7976931348623157e308\n",
    "[synchronization.algorithm]\nmeddling-threshold = -1e300\nstep-threshold = nan\nmaximum-frequency-steer = -inf\n",
    "",
    "\u{feff}[synchronization]\n",
];

fn grid_size() -> u64 {
    (THRESHOLD_KEYS.len() * FORMS * SCALARS.len() * 3) as u64 + FIXED_DOCS.len() as u64
}

// ---------------------------------------------------------------- oracle

#[derive(Debug, Clone, Copy, PartialEq)]
enum Lit {
    Nan,
    Neg,
    Other,
}

fn lit_class(v: &toml::Value) -> Lit {
    match v {
        toml::Value::Float(f) if f.is_nan() => Lit::Nan,
        toml::Value::Float(f) if *f < 0.0 => Lit::Neg,
        toml::Value::Integer(i) if *i < 0 => Lit::Neg,
        _ => Lit::Other,
    }
}

/// Independent view of the threshold literals in the document: per key the form
/// ("single" / "per-direction") and the literal classes present.
fn threshold_literals(text: &str) -> Option<Vec<(&'static str, &'static str, Vec<Lit>)>> {
    let t: toml::Table = text.parse().ok()?;
    let mut out = Vec::new();
    if let Some(toml::Value::Table(sync)) = t.get("synchronization") {
        for key in THRESHOLD_KEYS {
            match sync.get(*key) {
                None => {}
                Some(toml::Value::Table(m)) => {
                    out.push((*key, "per-direction", m.values().map(lit_class).collect()));
                }
                Some(v) => out.push((*key, "single", vec![lit_class(v)])),
            }
        }
    }
    Some(out)
}

fn judge(c: &mut Case, kind: &str, text: &str, shape: &[String], loaded: Result<Loaded, String>) {
    c.inc("docs_loaded");
    let lits = threshold_literals(text);
    let is_toml = lits.is_some();
    let lits = lits.unwrap_or_default();
    for (_, _, ls) in &lits {
        if ls.iter().any(|l| *l != Lit::Other) {
            c.inc("hostile_threshold_literal");
        }
    }
    let detail = |extra: serde_json::Value| {
        json!({"kind": kind, "document": text, "observed": extra})
    };
    match &loaded {
        Err(e) => {
            c.inc("rejected");
        }
        Ok(l) => {
            c.inc("accepted");
            if l.check_ok {
                c.inc("check_ok");
            } else {
                c.inc("check_warned");
            }
            if !is_toml {
                c.harness_error(format!("document accepted by Config but not by the generic TOML parse: {text:?}"));
            }
            let form_of = |key: &str| lits.iter().find(|(k, _, _)| *k == key).map(|(_, f, _)| *f).unwrap_or("default");
            let bounds: [(&str, &str, Bound); 4] = [
                ("single-step-panic-threshold", "forward", l.single_forward),
                ("single-step-panic-threshold", "backward", l.single_backward),
                ("startup-step-panic-threshold", "forward", l.startup_forward),
                ("startup-step-panic-threshold", "backward", l.startup_backward),
            ];
            for (key, dir, b) in bounds {
                c.inc("threshold_bounds_judged");
                if b.present && !(b.seconds >= 0.0) {
                    let form = form_of(key);
                    c.violation(
                        format!("threshold-negative/{form}/{}", c.profile),
                        format!("accepted configuration has {key}.{dir} = {} s (negative) given in the {form} form", b.seconds),
                        detail(json!({"key": key, "direction": dir, "seconds": b.seconds, "form": form})),
                    );
                }
            }
            for (key, form, ls) in &lits {
                match *form {
                    "single" => c.inc("threshold_single_form_accepted"),
                    _ => c.inc("threshold_per_direction_form_accepted"),
                }
                if ls.contains(&Lit::Nan) {
                    c.violation(
                        format!("threshold-nan/{form}/{}", c.profile),
                        format!("configuration with a NaN literal in {key} ({form} form) was accepted"),
                        detail(json!({"key": key, "form": form, "single": [l.single_forward.seconds, l.single_backward.seconds],
                                      "startup": [l.startup_forward.seconds, l.startup_backward.seconds]})),
                    );
                }
            }
            if l.accumulated.present && l.accumulated.seconds < 0.0 {
                c.inc("accumulated_negative_accepted_not_judged");
            }
        }
    }
    if is_toml {
        c.sig_of(&(kind, shape, loaded.is_ok()));
    }
    let ok = loaded.is_ok();
    c.sample(|| json!({"kind": kind, "accepted": ok, "document": if text.len() > 600 { &text[..text.char_indices().take_while(|(i, _)| *i < 600).count()] } else { text }}));
}

fn tmp_dir() -> std::path::PathBuf {
    let d = std::env::temp_dir().join(format!("verif-c39-{}", std::process::id()));
    let _ = std::fs::create_dir_all(&d);
    d
}

fn run(c: &mut Case) {
    let grid = grid_size();
    let (kind, text, shape): (&str, String, Vec<String>) = if c.idx < grid {
        let nfixed = FIXED_DOCS.len() as u64;
        if c.idx < nfixed {
            ("fixed", FIXED_DOCS[c.idx as usize].to_string(), vec![format!("fixed{}", c.idx)])
        } else {
            let mut i = (c.idx - nfixed) as usize;
            let key = THRESHOLD_KEYS[i % THRESHOLD_KEYS.len()];
            i /= THRESHOLD_KEYS.len();
            let form = i % FORMS;
            i /= FORMS;
            let (a, ca) = SCALARS[i % SCALARS.len()];
            i /= SCALARS.len();
            // second operand: benign, same, or random hostile
            let (b, cb) = match i {
                0 => ("1800", "posint"),
                1 => (a, ca),
                _ => *c.rng.pick(SCALARS),
            };
            let text = if c.rng.chance(1, 4) && form != 0 {
                // sub-table header form of the per-direction map
                let mut s = format!("[synchronization.{key}]\n");
                match form {
                    1 => s.push_str(&format!("forward = {a}\n")),
                    2 => s.push_str(&format!("backward = {a}\n")),
                    3 | 4 => s.push_str(&format!("forward = {a}\nbackward = {b}\n")),
                    5 => s.push_str(&format!("forward = {a}\nforward = {b}\n")),
                    _ => s.push_str(&format!("forward = {a}\nsideways = {b}\n")),
                }
                s
            } else {
                format!("[synchronization]\n{key} = {}\n", threshold_value(form, a, b))
            };
            c.inc("grid_docs");
            ("grid", text, vec![key.to_string(), format!("{form}"), ca.to_string(), cb.to_string()])
        }
    } else {
        match c.rng.below(5) {
            0 | 1 => {
                let (name, bytes, kinds) = mutate_example(c);
                c.inc("mutated_examples");
                // the daemon reads the file with read_to_string: invalid UTF-8 is an I/O error before
                // any parsing; keep such inputs for the file route only
                match String::from_utf8(bytes) {
                    Ok(s) => ("mutation", s, vec![name, kinds]),
                    Err(e) => {
                        let bytes = e.into_bytes();
                        let p = tmp_dir().join(format!("bad-{}.toml", c.idx));
                        if std::fs::write(&p, &bytes).is_ok() {
                            let r = c.no_panic("load-file", || json!({"kind": "mutation-nonutf8", "bytes_hex": crate::core::hex(&bytes)}), || load_file_and_check(&p));
                            let _ = std::fs::remove_file(&p);
                            c.inc("file_route");
                            c.inc("non_utf8_files");
                            if let Some(Ok(_)) = r {
                                c.violation(
                                    format!("non-utf8-accepted/{}", c.profile),
                                    "a configuration file that is not valid UTF-8 was accepted",
                                    json!({"bytes_hex": crate::core::hex(&bytes)}),
                                );
                            }
                        }
                        let _ = std::fs::remove_dir(tmp_dir());
                        return;
                    }
                }
            }
            _ => {
                let d = grammar_doc(c);
                c.inc("grammar_docs");
                ("grammar", d.text, d.shape)
            }
        }
    };
    let loaded = c.no_panic("load", || json!({"kind": kind, "document": text}), || load_and_check(&text));
    let Some(loaded) = loaded else {
        c.inc("docs_loaded");
        c.inc("panicked");
        c.sig_of(&(kind, &shape, "panic"));
        return;
    };
    let accepted = loaded.is_ok();
    let via_text = loaded.as_ref().ok().cloned();
    judge(c, kind, &text, &shape, loaded);

    // sub-sample: the same document through the file-based public entry point
    if c.idx % 16 == 0 || c.idx < grid {
        let p = tmp_dir().join(format!("c-{}.toml", c.idx));
        if std::fs::write(&p, text.as_bytes()).is_ok() {
            let r = c.no_panic("load-file", || json!({"kind": kind, "document": text}), || load_file_and_check(&p));
            let _ = std::fs::remove_file(&p);
            c.inc("file_route");
            if let Some(r) = r {
                if r.is_ok() != accepted {
                    c.harness_error(format!("file route and text route disagree on acceptance for {text:?}"));
                }
            }
        } else {
            c.harness_error("cannot write temp config file");
        }
        let _ = std::fs::remove_dir(tmp_dir());
    }

    // grid only: the lone StepThreshold deserialiser with the same literal
    if kind == "grid" {
        if let Some(rest) = text.strip_prefix("[synchronization]\n") {
            if let Some((_, v)) = rest.trim_end().split_once(" = ") {
                let v = v.to_string();
                let r = c.no_panic("step-threshold", || json!({"value": v}), || step_threshold_from_toml(&v));
                if let Some(Ok((f, b))) = r {
                    c.inc("lone_threshold_accepted");
                    for (dir, bd) in [("forward", f), ("backward", b)] {
                        if bd.present && !(bd.seconds >= 0.0) {
                            let form = if v.starts_with('{') { "per-direction" } else { "single" };
                            c.violation(
                                format!("threshold-negative/{form}/{}", c.profile),
                                format!("StepThreshold deserialised from `{v}` has {dir} = {} s (negative)", bd.seconds),
                                json!({"value": v, "direction": dir, "seconds": bd.seconds}),
                            );
                        }
                    }
                }
            }
        }
    }
}
