//! C38 — ntp-ctl reads exactly what the daemon publishes.
//!
//! Events: (A) states published by the REAL observer task (`observer::spawn`) on a
//! Unix socket in a temp dir and read with the REAL `sockets::read_json`
//! (what `ntp-ctl status` and the metrics exporter call) over a `UnixStream`;
//! (B) the raw frame of the same publication captured byte for byte, fed to
//! `read_json` and inspected at text level; (C) states with a chosen
//! `uptime_seconds` written with `write_json` directly; (D) raw length-prefixed
//! frames through a counting reader.
//! Oracle: typed field-by-field comparison against the values the harness handed
//! to the daemon side: integers/strings/enums/timestamps equal, f64 fields
//! bit-equal, durations within 1e-9*|d| + one 2^-32 s unit; a frame announcing more
//! than 2^20 bytes must fail with exactly the 8 header bytes consumed.

use crate::core::{Case, Profiles, Prop, Tier, guard};
use ntp_proto::verif::misc::{dur_from_i64, dur_to_i64, ts_from_u64, ts_to_u64};
use ntp_proto::{
    ClockId, NtpClock, NtpDuration, NtpLeapIndicator, NtpTimestamp, ObservableSourceState, ObservableSourceTimedata, PollInterval,
    ReferenceId, SystemSnapshot,
};
use ntpd::verif::m::config::ObservabilityConfig;
use ntpd::verif::m::observer::{ObservableServerState, ObservableState, ProgramData};
use ntpd::verif::m::sockets::{read_json, write_json};
use ntpd::verif::m::system::ServerData;
use ntpd::verif::obs::{N_COUNTERS, server_data, server_stats, server_stats_values};
use serde_json::json;
use std::collections::HashMap;
use std::net::{IpAddr, Ipv4Addr, Ipv6Addr, SocketAddr};
use std::path::PathBuf;
use std::pin::Pin;
use std::sync::atomic::{AtomicU64, Ordering};
use std::sync::{Arc, RwLock};
use std::task::{Context, Poll};
use tokio::io::{AsyncRead, AsyncReadExt, ReadBuf};

pub static PROP: Prop = Prop {
    id: "C38",
    level: "exploration",
    rule: "case = 1-3 random observable states (0-64 sources, 0-4 servers with counters, durations from 0/+-1 unit to \
           i64::MIN/MAX, any timestamps, finite f64 incl. subnormals, 17-digit and realistic-variance values) published by the \
           real observer task and read back over the Unix socket with the real read_json, plus the raw frame capture, one \
           direct write_json/read_json round trip with a chosen uptime, and raw frames announcing 0, 2^20, 2^20+1, 2^63, \
           2^64-1 (and random) lengths through a counting reader. Non-trivial = a state was published and read back; distinct \
           signature = (source-count bucket, server count, optional-field presence, leap, f64/duration magnitude classes).",
    assumptions: &[
        "the state handed to the observer task through its real inputs (source snapshot map, watch channels, clock) is 'what the daemon publishes'; uptime_seconds (a wall-clock value of the observer) is judged at text level: correctly rounded parse of the literal on the wire vs the value read_json returns",
        "non-finite numbers are never generated (the statement is about finite numbers)",
        "Rust's str::parse::<f64> is the trusted correctly rounded reference for decimal literals",
    ],
    profiles: Profiles::Both,
    cases: |t| t.pick(3_000, 60_000),
    budget_s: |t| t.pick(40, 400),
    run,
    min_nontrivial: 100,
    required_counters: &[
        "states_published",
        "states_read_over_socket",
        "raw_frames_captured",
        "f64_fields_compared",
        "durations_compared",
        "sources_compared",
        "servers_compared",
        "direct_roundtrips",
        "oversize_frames",
        "limit_frames_accepted",
    ],
    exhaustive: false,
    crash_is_violation: false,
};

// ------------------------------------------------------------------ generation

#[derive(Clone)]
struct HClock(Arc<AtomicU64>);
impl NtpClock for HClock {
    type Error = std::convert::Infallible;
    fn now(&self) -> Result<NtpTimestamp, Self::Error> {
        Ok(ts_from_u64(self.0.load(Ordering::SeqCst)))
    }
    fn set_frequency(&self, _f: f64) -> Result<NtpTimestamp, Self::Error> {
        self.now()
    }
    fn get_frequency(&self) -> Result<f64, Self::Error> {
        Ok(0.0)
    }
    fn step_clock(&self, _o: NtpDuration) -> Result<NtpTimestamp, Self::Error> {
        self.now()
    }
    fn disable_ntp_algorithm(&self) -> Result<(), Self::Error> {
        Ok(())
    }
    fn error_estimate_update(&self, _e: NtpDuration, _m: NtpDuration) -> Result<(), Self::Error> {
        Ok(())
    }
    fn status_update(&self, _l: NtpLeapIndicator) -> Result<(), Self::Error> {
        Ok(())
    }
}

fn gen_dur(c: &mut Case) -> i64 {
    match c.rng.below(10) {
        0 => 0,
        1 => *c.rng.pick(&[1i64, -1, 2, -2]),
        2 => *c.rng.pick(&[i64::MAX, i64::MIN, i64::MAX - 1, i64::MIN + 1]),
        3 => c.rng.range(-(1 << 20), 1 << 20),                  // sub-millisecond
        4 => c.rng.range(-(1i64 << 34), 1i64 << 34),            // a few seconds
        5 => (c.rng.range(-2147483648, 2147483647) << 32) | c.rng.below(1 << 32) as i64,
        6 => *c.rng.pick(&[1i64 << 32, -(1i64 << 32), (1i64 << 32) - 1, (1i64 << 63 - 1) - 1, 0x7FFF_FFFF_0000_0000, -0x7FFF_FFFF_0000_0000, 0x7FFF_FFFE_FFFF_FFFF]),
        7 => c.rng.edge_i64(),
        _ => c.rng.i64(),
    }
}

fn gen_f64(c: &mut Case) -> f64 {
    let x = match c.rng.below(12) {
        0 => 0.0,
        1 => c.rng.log_uniform(1e-20, 1e-2),                    // realistic variances
        2 => {
            let s = c.rng.log_uniform(1e-9, 1e-1);
            s * s * c.rng.f64_range(0.5, 2.0)
        }
        3 => f64::from_bits(c.rng.below(1 << 52)),              // subnormal
        4 => *c.rng.pick(&[f64::MAX, f64::MIN_POSITIVE, 5e-324, -5e-324, f64::MIN, 0.1 + 0.2, 1.0 / 3.0, 2.0f64.powi(53) + 2.0, 9007199254740993.0, 1e23, 8.41e21, 2.2250738585072011e-308, 1.7976931348623157e308]),
        5 => c.rng.range(-1_000_000, 1_000_000) as f64,
        6 => c.rng.f64_range(0.0, 1.0),
        7 => c.rng.log_uniform(1e-300, 1e300) * if c.rng.bool() { 1.0 } else { -1.0 },
        8 => c.rng.f64_range(0.0, 1e-6) * c.rng.f64_range(0.0, 1e-6),
        9 => -0.0,
        _ => c.rng.finite_f64(),
    };
    if x.is_finite() { x } else { 0.0 }
}

fn gen_string(c: &mut Case) -> String {
    match c.rng.below(8) {
        0 => String::new(),
        1 => format!("ntp{}.example.com:123", c.rng.below(1000)),
        2 => format!("[2001:db8::{:x}]:{}", c.rng.below(65536), c.rng.below(65536)),
        3 => "quote\" backslash\\ newline\n tab\t nul\u{0} del\u{7f} é 漢 \u{1F600} \u{2028}".to_string(),
        4 => "x".repeat(c.rng.usize(1, 300)),
        5 => {
            let n = c.rng.usize(1, 24);
            (0..n).map(|_| char::from_u32(c.rng.below(0x2FF) as u32).unwrap_or('?')).collect()
        }
        6 => "/var/run/chrony.ttyS0.sock".to_string(),
        _ => format!("10.{}.{}.{}:123", c.rng.below(256), c.rng.below(256), c.rng.below(256)),
    }
}

fn gen_source(c: &mut Case) -> ObservableSourceState {
    ObservableSourceState {
        timedata: ObservableSourceTimedata {
            offset: dur_from_i64(gen_dur(c)),
            uncertainty: dur_from_i64(gen_dur(c)),
            delay: dur_from_i64(gen_dur(c)),
            remote_delay: dur_from_i64(gen_dur(c)),
            remote_uncertainty: dur_from_i64(gen_dur(c)),
            last_update: ts_from_u64(c.rng.edge_u64()),
        },
        unanswered_polls: *c.rng.pick(&[0u32, 1, 7, 8, u32::MAX, 12345]),
        poll_interval: PollInterval::from_byte(c.rng.u8()),
        nts_cookies: match c.rng.below(4) {
            0 => None,
            1 => Some(c.rng.below(9) as usize),
            2 => Some(usize::MAX),
            _ => Some(c.rng.edge_u64() as usize),
        },
        name: gen_string(c),
        address: gen_string(c),
        id: ClockId::new(),
    }
}

fn gen_leap(c: &mut Case) -> NtpLeapIndicator {
    *c.rng.pick(&[
        NtpLeapIndicator::NoWarning,
        NtpLeapIndicator::Leap61,
        NtpLeapIndicator::Leap59,
        NtpLeapIndicator::Unknown,
        NtpLeapIndicator::Unsynchronized,
    ])
}

fn gen_system(c: &mut Case) -> SystemSnapshot {
    let mut s = SystemSnapshot::default();
    s.time_snapshot.precision = dur_from_i64(gen_dur(c));
    s.time_snapshot.root_delay = dur_from_i64(gen_dur(c));
    s.time_snapshot.root_variance_base_time = ts_from_u64(c.rng.edge_u64());
    s.time_snapshot.root_variance_base = gen_f64(c);
    s.time_snapshot.root_variance_linear = gen_f64(c);
    s.time_snapshot.root_variance_quadratic = gen_f64(c);
    s.time_snapshot.root_variance_cubic = gen_f64(c);
    s.time_snapshot.leap_indicator = gen_leap(c);
    s.time_snapshot.accumulated_steps = dur_from_i64(gen_dur(c));
    s.time_snapshot.accumulated_steps_threshold = if c.rng.bool() { Some(dur_from_i64(gen_dur(c))) } else { None };
    s.ntp_snapshot.stratum = c.rng.u8();
    s.ntp_snapshot.reference_id = ReferenceId::from_ip(IpAddr::V4(Ipv4Addr::from(c.rng.edge_u64() as u32)));
    s
}

fn gen_server(c: &mut Case) -> (SocketAddr, [u64; N_COUNTERS]) {
    let ip = if c.rng.bool() {
        IpAddr::V4(Ipv4Addr::from(c.rng.u32()))
    } else {
        IpAddr::V6(Ipv6Addr::from(((c.rng.u64() as u128) << 64) | c.rng.u64() as u128))
    };
    let mut v = [0u64; N_COUNTERS];
    for x in v.iter_mut() {
        *x = c.rng.edge_u64();
    }
    (SocketAddr::new(ip, c.rng.u16()), v)
}

struct St {
    sources: Vec<ObservableSourceState>,
    system: SystemSnapshot,
    servers: Vec<(SocketAddr, [u64; N_COUNTERS])>,
    now: u64,
}

fn gen_state(c: &mut Case) -> St {
    let ns = match c.rng.below(6) {
        0 => 0,
        1 => 1,
        2 => c.rng.usize(2, 4),
        3 => c.rng.usize(5, 16),
        4 => 64,
        _ => c.rng.usize(17, 63),
    };
    let nv = c.rng.usize(0, 4);
    St {
        sources: (0..ns).map(|_| gen_source(c)).collect(),
        system: gen_system(c),
        servers: (0..nv).map(|_| gen_server(c)).collect(),
        now: c.rng.edge_u64(),
    }
}

// ------------------------------------------------------------------ comparison

struct Cmp<'a, 'b, 'c> {
    c: &'a mut Case<'b>,
    route: &'c str,
    ctx: serde_json::Value,
    /// how the judged uptime value came about (part of the violation signature)
    uptime_kind: &'static str,
}

impl Cmp<'_, '_, '_> {
    fn dur(&mut self, field: &str, w: NtpDuration, r: NtpDuration) {
        let (w, r) = (dur_to_i64(w), dur_to_i64(r));
        self.c.inc("durations_compared");
        let err = (w as i128 - r as i128).unsigned_abs();
        // err <= 1e-9 * |w| + 1 unit, evaluated exactly: err * 1e9 <= |w| + 1e9
        let tol = (w as i128).unsigned_abs() as f64 * 1e-9 + 1.0;
        if err * 1_000_000_000 > (w as i128).unsigned_abs() + 1_000_000_000 {
            self.c.inc(if w < 0 { "duration_mismatch_negative" } else { "duration_mismatch_nonnegative" });
            let grp = field.rsplit('.').next().unwrap_or(field).to_string();
            self.c.violation(
                format!("duration-out-of-tolerance/{}/{}", if w < 0 { "negative" } else { "non-negative" }, self.c.profile),
                format!("{field}: published {w} (2^-32 s units), read back {r}: off by {err} units, tolerance 1e-9*|d|+1 = {tol:.3} units [{}]", self.route),
                json!({"field": field, "published_raw": w, "read_raw": r, "error_units": err.to_string(), "tolerance_units": format!("{tol:.3}"), "route": self.route, "context": self.ctx}),
            );
        }
    }
    fn opt_dur(&mut self, field: &str, w: Option<NtpDuration>, r: Option<NtpDuration>) {
        match (w, r) {
            (Some(w), Some(r)) => self.dur(field, w, r),
            (None, None) => {}
            (w, r) => self.mismatch(field, format!("{:?}", w.map(dur_to_i64)), format!("{:?}", r.map(dur_to_i64))),
        }
    }
    fn f64(&mut self, field: &str, w: f64, r: f64) {
        self.c.inc("f64_fields_compared");
        if w.to_bits() != r.to_bits() {
            let ulps = (w.to_bits() as i128 - r.to_bits() as i128).unsigned_abs();
            let realistic = w.abs() >= 1e-20 && w.abs() <= 1e10;
            self.c.inc(if realistic { "f64_mismatch_realistic_magnitude" } else { "f64_mismatch_extreme_magnitude" });
            self.c.violation(
                format!(
                    "f64-not-equal/{}/{}/{}",
                    if field.contains("uptime") { self.uptime_kind } else { "root_variance" },
                    if realistic { "realistic-magnitude" } else { "extreme-magnitude" },
                    self.c.profile
                ),
                format!(
                    "{field}: published {w:e} (bits {:#018x}), read back {r:e} (bits {:#018x}), {ulps} ulp apart [{}]",
                    w.to_bits(), r.to_bits(), self.route
                ),
                json!({"field": field, "published": format!("{w:e}"), "published_bits": format!("{:#018x}", w.to_bits()),
                       "read": format!("{r:e}"), "read_bits": format!("{:#018x}", r.to_bits()), "ulps": ulps.to_string(),
                       "json_text_of_published": serde_json::to_string(&w).unwrap_or_default(), "route": self.route}),
            );
        }
    }
    fn mismatch(&mut self, field: &str, w: String, r: String) {
        let grp: String = field.chars().filter(|ch| !ch.is_ascii_digit()).collect();
        self.c.violation(
            format!("field-mismatch/{grp}/{}", self.c.profile),
            format!("{field}: published {w}, read back {r} [{}]", self.route),
            json!({"field": field, "published": w, "read": r, "route": self.route, "context": self.ctx}),
        );
    }
    fn eq<T: PartialEq + std::fmt::Debug>(&mut self, field: &str, w: &T, r: &T) {
        self.c.inc("plain_fields_compared");
        if w != r {
            self.mismatch(field, format!("{w:?}"), format!("{r:?}"));
        }
    }
    fn source(&mut self, i: usize, w: &ObservableSourceState, r: &ObservableSourceState) {
        self.c.inc("sources_compared");
        let p = format!("sources[{i}]");
        self.dur(&format!("{p}.offset"), w.timedata.offset, r.timedata.offset);
        self.dur(&format!("{p}.uncertainty"), w.timedata.uncertainty, r.timedata.uncertainty);
        self.dur(&format!("{p}.delay"), w.timedata.delay, r.timedata.delay);
        self.dur(&format!("{p}.remote_delay"), w.timedata.remote_delay, r.timedata.remote_delay);
        self.dur(&format!("{p}.remote_uncertainty"), w.timedata.remote_uncertainty, r.timedata.remote_uncertainty);
        self.eq(&format!("{p}.last_update"), &ts_to_u64(w.timedata.last_update), &ts_to_u64(r.timedata.last_update));
        self.eq(&format!("{p}.unanswered_polls"), &w.unanswered_polls, &r.unanswered_polls);
        self.eq(&format!("{p}.poll_interval"), &w.poll_interval.as_byte(), &r.poll_interval.as_byte());
        self.eq(&format!("{p}.nts_cookies"), &w.nts_cookies, &r.nts_cookies);
        self.eq(&format!("{p}.name"), &w.name, &r.name);
        self.eq(&format!("{p}.address"), &w.address, &r.address);
        self.eq(&format!("{p}.id"), &w.id, &r.id);
    }
    fn system(&mut self, w: &SystemSnapshot, r: &SystemSnapshot) {
        let (wt, rt) = (&w.time_snapshot, &r.time_snapshot);
        self.dur("system.precision", wt.precision, rt.precision);
        self.dur("system.root_delay", wt.root_delay, rt.root_delay);
        self.eq("system.root_variance_base_time", &ts_to_u64(wt.root_variance_base_time), &ts_to_u64(rt.root_variance_base_time));
        self.f64("system.root_variance_base", wt.root_variance_base, rt.root_variance_base);
        self.f64("system.root_variance_linear", wt.root_variance_linear, rt.root_variance_linear);
        self.f64("system.root_variance_quadratic", wt.root_variance_quadratic, rt.root_variance_quadratic);
        self.f64("system.root_variance_cubic", wt.root_variance_cubic, rt.root_variance_cubic);
        self.eq("system.leap_indicator", &wt.leap_indicator, &rt.leap_indicator);
        self.dur("system.accumulated_steps", wt.accumulated_steps, rt.accumulated_steps);
        self.opt_dur("system.accumulated_steps_threshold", wt.accumulated_steps_threshold, rt.accumulated_steps_threshold);
        self.eq("system.stratum", &w.ntp_snapshot.stratum, &r.ntp_snapshot.stratum);
        self.eq("system.reference_id", &w.ntp_snapshot.reference_id, &r.ntp_snapshot.reference_id);
    }
    fn state(&mut self, st: &St, r: &ObservableState, uptime: Option<f64>) {
        // program
        let d = ProgramData::default();
        self.eq("program.version", &d.version, &r.program.version);
        self.eq("program.build_commit", &d.build_commit, &r.program.build_commit);
        self.eq("program.build_commit_date", &d.build_commit_date, &r.program.build_commit_date);
        self.eq("program.now", &st.now, &ts_to_u64(r.program.now));
        match uptime {
            Some(u) => self.f64("program.uptime_seconds", u, r.program.uptime_seconds),
            None => {
                if !(r.program.uptime_seconds.is_finite() && r.program.uptime_seconds >= 0.0) {
                    self.mismatch("program.uptime_seconds", "a finite non-negative number".into(), format!("{:e}", r.program.uptime_seconds));
                }
            }
        }
        self.system(&st.system, &r.system);
        // sources: the observer publishes the map's values in arbitrary order; match by id
        self.eq("sources.len", &st.sources.len(), &r.sources.len());
        let by_id: HashMap<ClockId, &ObservableSourceState> = r.sources.iter().map(|s| (s.id, s)).collect();
        if by_id.len() != r.sources.len() {
            self.mismatch("sources.ids", "distinct ids".into(), "a repeated id".into());
        }
        for (i, w) in st.sources.iter().enumerate() {
            match by_id.get(&w.id) {
                Some(rs) => self.source(i, w, rs),
                None => self.mismatch(&format!("sources[{i}]"), format!("source with id {:?}", w.id), "missing".into()),
            }
        }
        // servers: published in order
        self.eq("servers.len", &st.servers.len(), &r.servers.len());
        for (i, ((addr, cnt), rs)) in st.servers.iter().zip(r.servers.iter()).enumerate() {
            self.c.inc("servers_compared");
            self.eq(&format!("servers[{i}].address"), addr, &rs.address);
            self.eq(&format!("servers[{i}].stats"), cnt, &server_stats_values(&rs.stats));
        }
    }
}

// ------------------------------------------------------------------ raw frames

struct Counting<'a> {
    data: &'a [u8],
    pos: usize,
    chunk: usize,
    polls: usize,
}

impl AsyncRead for Counting<'_> {
    fn poll_read(mut self: Pin<&mut Self>, _cx: &mut Context<'_>, buf: &mut ReadBuf<'_>) -> Poll<std::io::Result<()>> {
        let n = buf.remaining().min(self.data.len() - self.pos).min(self.chunk);
        let (a, b) = (self.pos, self.pos + n);
        buf.put_slice(&self.data[a..b]);
        self.pos = b;
        self.polls += 1;
        Poll::Ready(Ok(()))
    }
}

const LIMIT: u64 = 1 << 20;

fn frame_cases(c: &mut Case, rt: &tokio::runtime::Runtime) {
    // announced length, bytes of payload actually present, payload kind
    let n_frames = 3;
    for _ in 0..n_frames {
        let announced: u64 = match c.rng.below(12) {
            0 => 0,
            1 => LIMIT,
            2 => LIMIT + 1,
            3 => 1 << 63,
            4 => u64::MAX,
            5 => LIMIT + c.rng.below(1 << 12) + 1,
            6 => c.rng.below(1 << 12),
            7 => (1u64 << c.rng.range(21, 62)) + c.rng.below(3),
            8 => u64::MAX - c.rng.below(1 << 20),
            9 => (1 << 32) + c.rng.below(100),
            10 => LIMIT - c.rng.below(64),
            _ => c.rng.edge_u64(),
        };
        // big payloads only sometimes (1 MiB of allocation per frame)
        let full = announced <= LIMIT + (1 << 12) && (announced < (1 << 16) || c.rng.chance(1, 6));
        let present: usize = if full { announced as usize } else { c.rng.usize(0, 256) };
        let valid_json = full && present >= 5 && c.rng.chance(3, 4);
        let mut data = Vec::with_capacity(8 + present);
        data.extend_from_slice(&announced.to_be_bytes());
        if valid_json {
            data.extend_from_slice(b"[1,");
            data.resize(8 + present - 2, b' ');
            data.extend_from_slice(b"2]");
        } else {
            let junk = c.rng.bytes(present.min(512));
            data.extend_from_slice(&junk);
            data.resize(8 + present, b'7');
        }
        let chunk = *c.rng.pick(&[1usize, 3, 8, 4096, usize::MAX]);
        let mut rd = Counting { data: &data, pos: 0, chunk, polls: 0 };
        let mut buffer = Vec::new();
        let res = guard(|| rt.block_on(async { read_json::<Vec<u64>>(&mut rd, &mut buffer).await }));
        let consumed = rd.pos;
        let det = json!({"announced": announced.to_string(), "payload_bytes_available": present, "payload_is_valid_json": valid_json,
                         "chunk": if chunk == usize::MAX { 0 } else { chunk }, "consumed": consumed,
                         "frame_prefix_hex": crate::core::hex(&data[..data.len().min(24)])});
        c.inc("frames");
        if announced > LIMIT {
            c.inc("oversize_frames");
            match &res {
                Err(p) => c.violation(
                    format!("oversize-panic/{}/{}", c.profile, p.site()),
                    format!("read_json panicked on a frame announcing {announced} bytes: {} {}", p.location, p.message),
                    det.clone(),
                ),
                Ok(Ok(v)) => c.violation(
                    format!("oversize-accepted/{}", c.profile),
                    format!("read_json accepted a frame announcing {announced} bytes (> 1 MiB) and returned {} elements", v.len()),
                    det.clone(),
                ),
                Ok(Err(_)) => {}
            }
            if consumed > 8 {
                c.violation(
                    format!("oversize-payload-consumed/{}", c.profile),
                    format!("read_json consumed {} payload bytes of a frame announcing {announced} bytes (> 1 MiB) before rejecting it", consumed - 8),
                    det.clone(),
                );
            }
            c.sig_of(&("frame", announced.leading_zeros(), full, valid_json, chunk));
        } else {
            match &res {
                Err(p) => c.violation(
                    format!("frame-panic/{}/{}", c.profile, p.site()),
                    format!("read_json panicked on a frame announcing {announced} bytes: {} {}", p.location, p.message),
                    det.clone(),
                ),
                Ok(Ok(v)) => {
                    c.inc("limit_frames_accepted");
                    if !(valid_json && v == &[1u64, 2]) {
                        c.violation(
                            format!("frame-wrong-value/{}", c.profile),
                            format!("read_json returned {v:?} for a frame that does not carry that value"),
                            det.clone(),
                        );
                    }
                }
                Ok(Err(e)) => {
                    if valid_json {
                        c.violation(
                            format!("frame-within-limit-rejected/{}", c.profile),
                            format!("a well-formed frame of {announced} bytes (<= 1 MiB) was rejected: {e}"),
                            det.clone(),
                        );
                    }
                }
            }
            c.sig_of(&("frame-ok", announced.leading_zeros(), full, valid_json, chunk));
        }
    }
}

// ------------------------------------------------------------------ the case

fn tmp_dir() -> PathBuf {
    let d = std::env::temp_dir().join(format!("verif-c38-{}", std::process::id()));
    let _ = std::fs::create_dir_all(&d);
    d
}

/// text-level view: the literal following `"key":` in the JSON text
fn literal_after<'a>(text: &'a str, key: &str) -> Option<&'a str> {
    let pat = format!("\"{key}\":");
    let i = text.find(&pat)? + pat.len();
    let rest = &text[i..];
    let end = rest.find(|ch: char| ch == ',' || ch == '}' || ch == ']').unwrap_or(rest.len());
    Some(rest[..end].trim())
}

fn f64_class(x: f64) -> u8 {
    if x == 0.0 {
        0
    } else if x.abs() < f64::MIN_POSITIVE {
        1
    } else {
        2 + ((x.abs().log10().floor() as i32 + 330) / 60) as u8
    }
}

fn run(c: &mut Case) {
    let rt = match tokio::runtime::Builder::new_current_thread().enable_all().build() {
        Ok(rt) => rt,
        Err(e) => {
            c.harness_error(format!("runtime: {e}"));
            return;
        }
    };
    let n_states = c.rng.usize(1, 3);
    let states: Vec<St> = (0..n_states).map(|_| gen_state(c)).collect();
    let path = tmp_dir().join(format!("o{}.sock", c.idx));
    let _ = std::fs::remove_file(&path);

    // ---- A/B: the real observer task
    let sources_h: Arc<RwLock<HashMap<ClockId, ObservableSourceState>>> = Arc::new(RwLock::new(HashMap::new()));
    let (servers_tx, servers_rx) = tokio::sync::watch::channel::<Vec<ServerData>>(vec![]);
    let (system_tx, system_rx) = tokio::sync::watch::channel(SystemSnapshot::default());
    let now_h = Arc::new(AtomicU64::new(0));
    let cfg = ObservabilityConfig {
        observation_path: Some(path.clone()),
        observation_permissions: 0o600,
        ..Default::default()
    };
    rt.block_on(async {
        let handle = ntpd::verif::m::observer::spawn(&cfg, sources_h.clone(), servers_rx, system_rx, HClock(now_h.clone()));
        // the task binds the socket when first polled: yield until it exists (bounded, no sleeping)
        let mut up = false;
        for _ in 0..100_000 {
            if path.exists() {
                up = true;
                break;
            }
            if handle.is_finished() {
                break;
            }
            tokio::task::yield_now().await;
        }
        if !up {
            c.harness_error("observer task did not create its socket");
            handle.abort();
            return;
        }
        for (si, st) in states.iter().enumerate() {
            // hand the state to the daemon side through its real inputs
            {
                let mut m = sources_h.write().unwrap();
                m.clear();
                for s in &st.sources {
                    m.insert(s.id, s.clone());
                }
            }
            let _ = servers_tx.send(st.servers.iter().map(|(a, v)| server_data(*a, *v)).collect());
            let _ = system_tx.send(st.system);
            now_h.store(st.now, Ordering::SeqCst);
            c.inc("states_published");
            let ctx = json!({"state_index": si, "n_sources": st.sources.len(), "n_servers": st.servers.len()});

            // A: exactly what ntp-ctl does
            match tokio::net::UnixStream::connect(&path).await {
                Err(e) => c.harness_error(format!("connect: {e}")),
                Ok(mut stream) => {
                    let mut msg = Vec::with_capacity(16 * 1024);
                    let r = guard_async(read_json::<ObservableState>(&mut stream, &mut msg)).await;
                    match r {
                        Err(p) => c.violation(
                            format!("read-panic/{}/{}", c.profile, p.site()),
                            format!("read_json panicked on a published state: {} {}", p.location, p.message),
                            ctx.clone(),
                        ),
                        Ok(Err(e)) => c.violation(
                            format!("published-state-unreadable/{}", c.profile),
                            format!("read_json failed on a state published by the observer task: {e}"),
                            json!({"context": ctx, "error": e.to_string(), "bytes_received": msg.len(),
                                   "text_prefix": String::from_utf8_lossy(&msg[..msg.len().min(400)])}),
                        ),
                        Ok(Ok(read)) => {
                            c.inc("states_read_over_socket");
                            Cmp { c: &mut *c, route: "observer task -> unix socket -> read_json", ctx: ctx.clone(), uptime_kind: "uptime_seconds" }.state(st, &read, None);
                        }
                    }
                }
            }

            // B: raw capture of one publication
            match tokio::net::UnixStream::connect(&path).await {
                Err(e) => c.harness_error(format!("connect: {e}")),
                Ok(mut stream) => {
                    let mut raw = Vec::new();
                    if let Err(e) = stream.read_to_end(&mut raw).await {
                        c.harness_error(format!("raw capture: {e}"));
                        continue;
                    }
                    c.inc("raw_frames_captured");
                    if raw.len() < 8 || u64::from_be_bytes(raw[..8].try_into().unwrap()) != (raw.len() - 8) as u64 {
                        c.violation(
                            format!("frame-length-prefix-wrong/{}", c.profile),
                            format!("the observer wrote {} bytes but the length prefix does not announce {} payload bytes", raw.len(), raw.len().saturating_sub(8)),
                            json!({"prefix_hex": crate::core::hex(&raw[..raw.len().min(8)]), "total": raw.len()}),
                        );
                        continue;
                    }
                    let text = String::from_utf8_lossy(&raw[8..]).to_string();
                    let mut rd = Counting { data: &raw, pos: 0, chunk: *c.rng.pick(&[1usize, 7, 4096, usize::MAX]), polls: 0 };
                    let mut msg = Vec::new();
                    match read_json::<ObservableState>(&mut rd, &mut msg).await {
                        Err(e) => c.violation(
                            format!("published-state-unreadable/{}", c.profile),
                            format!("read_json failed on a captured frame of the observer task: {e}"),
                            json!({"context": ctx, "error": e.to_string(), "text_prefix": &text[..text.len().min(400)]}),
                        ),
                        Ok(read) => {
                            // uptime at text level: what was written vs what is read
                            let uptime_written = literal_after(&text, "uptime_seconds").and_then(|l| l.parse::<f64>().ok());
                            match uptime_written {
                                None => c.harness_error("cannot locate uptime_seconds in the captured frame"),
                                Some(u) => c.inc("uptime_literals_checked"),
                            }
                            Cmp { c: &mut *c, route: "observer task -> captured frame -> read_json", ctx: ctx.clone(), uptime_kind: "uptime_seconds-of-observer-task" }.state(st, &read, uptime_written);
                            // cross-check of the harness's text-level view on the controlled f64 fields
                            for (k, v) in [
                                ("root_variance_base", st.system.time_snapshot.root_variance_base),
                                ("root_variance_linear", st.system.time_snapshot.root_variance_linear),
                                ("root_variance_quadratic", st.system.time_snapshot.root_variance_quadratic),
                                ("root_variance_cubic", st.system.time_snapshot.root_variance_cubic),
                            ] {
                                match literal_after(&text, k).and_then(|l| l.parse::<f64>().ok()) {
                                    Some(p) if p.to_bits() == v.to_bits() || (p == 0.0 && v == 0.0) => c.inc("wire_literals_exact"),
                                    Some(p) => {
                                        c.inc("wire_literals_inexact");
                                        c.violation(
                                            format!("f64-written-inexactly/{}", c.profile),
                                            format!("{k}: the daemon wrote the literal {:?} for {v:e}; its correctly rounded value is {p:e}", literal_after(&text, k)),
                                            json!({"field": k, "value_bits": format!("{:#018x}", v.to_bits()), "literal": literal_after(&text, k)}),
                                        );
                                    }
                                    None => c.harness_error(format!("cannot locate {k} in the captured frame")),
                                }
                            }
                        }
                    }
                }
            }
            let ts = &st.system.time_snapshot;
            c.sig_of(&(
                match st.sources.len() { 0 => 0, 1 => 1, 2..=4 => 2, 5..=16 => 3, 64 => 5, _ => 4 },
                st.servers.len(),
                ts.accumulated_steps_threshold.is_some(),
                format!("{:?}", ts.leap_indicator),
                [f64_class(ts.root_variance_base), f64_class(ts.root_variance_linear), f64_class(ts.root_variance_quadratic), f64_class(ts.root_variance_cubic)],
                (dur_to_i64(ts.precision).unsigned_abs().leading_zeros() / 8, dur_to_i64(ts.accumulated_steps) < 0),
            ));
            c.sample(|| json!({"n_sources": st.sources.len(), "n_servers": st.servers.len(),
                               "root_variance": [format!("{:e}", ts.root_variance_base), format!("{:e}", ts.root_variance_linear), format!("{:e}", ts.root_variance_quadratic), format!("{:e}", ts.root_variance_cubic)],
                               "precision_raw": dur_to_i64(ts.precision), "now": st.now}));
        }
        handle.abort();
        let _ = handle.await;
    });
    let _ = std::fs::remove_file(&path);

    // ---- C: write_json directly with a chosen uptime
    {
        let st = &states[0];
        let uptime_sel = c.rng.below(4);
        let uptime = match uptime_sel {
            // what Instant::elapsed().as_secs_f64() produces
            0 | 1 => std::time::Duration::new(c.rng.below(10_000_000), c.rng.below(1_000_000_000) as u32).as_secs_f64(),
            2 => std::time::Duration::new(c.rng.below(100), c.rng.below(1_000_000_000) as u32).as_secs_f64(),
            _ => gen_f64(c).abs(),
        };
        let uptime_kind = if uptime_sel < 3 { "uptime_seconds-from-duration" } else { "uptime_seconds-arbitrary" };
        let published = ObservableState {
            program: ProgramData::with_dynamics(uptime, ts_from_u64(st.now)),
            system: st.system,
            sources: st.sources.clone(),
            servers: st.servers.iter().map(|(a, v)| ObservableServerState { address: *a, stats: server_stats(*v) }).collect(),
        };
        let mut wire: Vec<u8> = Vec::new();
        let w = guard(|| rt.block_on(async { write_json(&mut wire, &published).await }));
        match w {
            Ok(Ok(())) => {
                let mut rd = Counting { data: &wire, pos: 0, chunk: usize::MAX, polls: 0 };
                let mut msg = Vec::new();
                let r = guard(|| rt.block_on(async { read_json::<ObservableState>(&mut rd, &mut msg).await }));
                c.inc("direct_roundtrips");
                match r {
                    Ok(Ok(read)) => {
                        Cmp { c: &mut *c, route: "write_json -> read_json", ctx: json!({"uptime": format!("{uptime:e}")}), uptime_kind }.state(st, &read, Some(uptime));
                    }
                    Ok(Err(e)) => c.violation(
                        format!("published-state-unreadable/{}", c.profile),
                        format!("read_json failed on the output of write_json: {e}"),
                        json!({"error": e.to_string(), "text_prefix": String::from_utf8_lossy(&wire[8.min(wire.len())..wire.len().min(400)])}),
                    ),
                    Err(p) => c.violation(
                        format!("read-panic/{}/{}", c.profile, p.site()),
                        format!("read_json panicked on the output of write_json: {} {}", p.location, p.message),
                        json!({}),
                    ),
                }
            }
            Ok(Err(e)) => c.harness_error(format!("write_json to a Vec failed: {e}")),
            Err(p) => c.violation(
                format!("write-panic/{}/{}", c.profile, p.site()),
                format!("write_json panicked on a finite state: {} {}", p.location, p.message),
                json!({}),
            ),
        }
    }

    // ---- D: raw frames
    frame_cases(c, &rt);
    drop(rt);
    let _ = std::fs::remove_dir(tmp_dir());
}

/// catch a panic of the awaited future (the future is polled inside catch_unwind)
async fn guard_async<F: std::future::Future>(f: F) -> Result<F::Output, crate::core::PanicInfo> {
    let mut f = std::pin::pin!(f);
    std::future::poll_fn(move |cx| {
        match std::panic::catch_unwind(std::panic::AssertUnwindSafe(|| f.as_mut().poll(cx))) {
            Ok(Poll::Ready(v)) => Poll::Ready(Ok(v)),
            Ok(Poll::Pending) => Poll::Pending,
            Err(_) => Poll::Ready(Err(crate::core::take_last_panic())),
        }
    })
    .await
}
