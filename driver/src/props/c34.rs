//! C34 — NTPv5 Bloom filters are transferred faithfully.
//!
//! Events: the source's copy of the filter (`NtpSourceSnapshot::bloom_filter`), the chunk
//! requests it emits (decoded by the reference codec), the real server's chunk answers,
//! results of direct calls on `RemoteBloomFilter` / `BloomFilter` / `ReferenceIdRequest`.
//! Oracle: byte comparison with the server's 512 filter bytes; a model of which chunk
//! offsets received a fitting answer.

use crate::common::refntp;
use crate::common::srcbsim::{
    DRAFT_ID, Fld, Keys, SpyEv, UnitCfg, Ver, World, answer_header, encode_fields, first_send, skeleton, view_request,
};
use crate::core::{Case, Profiles, Prop, Tier, guard, hex};
use ntp_proto::verif::m::packet::v5::NtpClientCookie;
use ntp_proto::verif::m::packet::v5::extension_fields::{ReferenceIdRequest, ReferenceIdResponse};
use ntp_proto::verif::m::packet::v5::server_reference_id::{BloomFilter, RemoteBloomFilter, ServerId};
use rand::SeedableRng;
use serde_json::{Value, json};
use std::collections::HashSet;
use std::net::SocketAddr;
use std::time::Duration;

pub static PROP: Prop = Prop {
    id: "C34",
    level: "exploration",
    rule: "idx%3==0 'direct': a RemoteBloomFilter of chunk size s (every s in {4,8,16,32,64,128,256,512} by idx) is driven by a script of \
           next_request / fitting answer (the real ReferenceIdRequest::to_response on a filter of 0-200 random server ids) / stale-cookie \
           answer / wrong-size answer / unsolicited answer / lost answer until every offset received a fitting answer (and 0-2 rounds more); \
           plus membership of every id added (add_id, add, union) and to_response on arbitrary (offset,length). idx%3==1 'session': a real \
           NTPv5 NtpSource (plain or NTS) against the real Server holding a constant random filter, with lost / wrong-size / stale answers \
           interleaved, until all 32 chunk offsets were answered. idx%3==2 'server': the real Server answers NTPv5 requests carrying chunk \
           requests with arbitrary offset/length. Signature = (mode, chunk size, disturbance kinds seen, filter density class, completed).",
    assumptions: &[
        "the server's filter is constant during a transfer (DESIGN.md Reading)",
        "the order in which chunks are requested is not prescribed; only 'a non-fitting answer does not advance/alter' and 'all offsets answered => equal' are judged",
    ],
    profiles: Profiles::Strict,
    cases: |t| t.pick(20_000, 200_000),
    budget_s: |t| t.pick(60, 600),
    run,
    min_nontrivial: 40,
    required_counters: &[
        "direct_fitting", "direct_stale", "direct_wrong_size", "direct_unsolicited", "direct_completed", "membership_checked",
        "to_response_checked", "session_completed", "session_wrong_size", "session_stale", "server_replies_checked", "server_no_chunk",
    ],
    exhaustive: false,
    crash_is_violation: false,
};

fn random_filter(c: &mut Case, max_ids: usize) -> (BloomFilter, Vec<ServerId>) {
    let mut srng = rand::rngs::StdRng::seed_from_u64(c.rng.u64());
    let n = match c.rng.below(4) {
        0 => 0,
        1 => c.rng.usize(1, 5),
        _ => c.rng.usize(0, max_ids),
    };
    let mut f = BloomFilter::new();
    let mut ids = vec![];
    for _ in 0..n {
        let id = ServerId::new(&mut srng);
        f.add_id(&id);
        ids.push(id);
    }
    (f, ids)
}

fn density(f: &BloomFilter) -> u8 {
    (f.as_bytes().iter().map(|b| b.count_ones()).sum::<u32>() / 512) as u8
}

fn direct(c: &mut Case) {
    const SIZES: [u16; 8] = [4, 8, 16, 32, 64, 128, 256, 512];
    let s = SIZES[((c.idx / 3) % 8) as usize];
    let (f, ids) = random_filter(c, 200);
    let fb = f.as_bytes().to_vec();
    let mut script: Vec<Value> = vec![json!({"chunk_size": s, "filter": hex(&fb)})];

    // membership: every id added is reported (directly, via add, via union)
    let mut g = BloomFilter::new();
    g.add(&f);
    let un = BloomFilter::union([&f, &BloomFilter::new()].into_iter());
    for id in &ids {
        c.inc("membership_checked");
        if !f.contains_id(id) || !g.contains_id(id) || !un.contains_id(id) {
            c.violation("C34/membership/false-negative", format!("an added server id is not reported: {id:?}"), json!({"ids": ids.len(), "filter": hex(&fb)}));
            return;
        }
    }
    // server side: arbitrary (offset, length)
    for _ in 0..20 {
        let off = if c.rng.bool() { c.rng.below(520) as u16 } else { (c.rng.below(130) * 4) as u16 };
        let len = if c.rng.bool() { (c.rng.below(130) * 4) as usize } else { c.rng.usize(2, 520) };
        let mut msg = vec![0u8; len.max(2)];
        msg[..2].copy_from_slice(&off.to_be_bytes());
        let Ok(req) = ReferenceIdRequest::decode(&msg) else { continue };
        c.inc("to_response_checked");
        let got = req.to_response(&f).map(|r| r.bytes().to_vec());
        let end = off as usize + msg.len();
        if let Some(b) = &got {
            if end > 512 || b[..] != fb[off as usize..end] {
                c.violation(
                    "C34/server/wrong-chunk",
                    format!("chunk request offset {off} length {} answered with {} bytes that are not filter[{off}..{end}]", msg.len(), b.len()),
                    json!({"offset": off, "length": msg.len(), "answer": hex(b), "filter": hex(&fb)}),
                );
                return;
            }
        }
    }

    let Some(mut rbf) = RemoteBloomFilter::new(s) else {
        c.violation("C34/client/chunk-size-rejected", format!("chunk size {s} divides 512 but was refused"), json!({}));
        return;
    };
    let n_off = 512 / s as usize;
    let mut covered = vec![false; 512];
    let mut old_cookies: Vec<NtpClientCookie> = vec![];
    let mut kinds = 0u8;
    let extra_rounds = c.rng.usize(0, 2) * n_off;
    let mut after_complete = 0;
    let mut steps = 0;
    while steps < 40 * n_off + 100 {
        steps += 1;
        if covered.iter().all(|x| *x) {
            if after_complete >= extra_rounds {
                break;
            }
            after_complete += 1;
        }
        let cookie = NtpClientCookie(c.rng.u64().to_be_bytes());
        let req = rbf.next_request(cookie);
        let (off, len) = (req.offset(), req.payload_len());
        script.push(json!({"request": {"offset": off, "length": len}}));
        if len != s || off as usize + len as usize > 512 {
            c.violation("C34/client/bad-request", format!("chunk size {s}: request offset {off} length {len}"), json!({"script": script}));
            return;
        }
        let before_full = rbf.full_filter().map(|x| x.as_bytes().to_vec());
        // disturbances: none of them may alter the filter or the progress
        let mut disturbed = false;
        for _ in 0..c.rng.usize(0, 2) {
            let junk = c.rng.bytes(512);
            let (what, cnt, r) = match c.rng.below(3) {
                0 if !old_cookies.is_empty() => {
                    let oc = *c.rng.pick(&old_cookies);
                    ("stale-cookie", "direct_stale", rbf.handle_response(oc, &ReferenceIdResponse::decode(&junk[..s as usize])))
                }
                1 => {
                    let mut other = *c.rng.pick(&SIZES) as usize;
                    if other == s as usize {
                        other = if s == 4 { 8 } else { (s / 2) as usize };
                    }
                    ("wrong-size", "direct_wrong_size", rbf.handle_response(cookie, &ReferenceIdResponse::decode(&junk[..other])))
                }
                _ => {
                    let bad = NtpClientCookie(c.rng.u64().to_be_bytes());
                    ("foreign-cookie", "direct_stale", rbf.handle_response(bad, &ReferenceIdResponse::decode(&junk[..s as usize])))
                }
            };
            c.inc(cnt);
            kinds |= match what {
                "stale-cookie" => 1,
                "wrong-size" => 2,
                _ => 4,
            };
            script.push(json!({"disturbance": what, "accepted": r.is_ok()}));
            disturbed = true;
            if r.is_ok() {
                c.violation(format!("C34/client/accepted-{what}"), format!("a {what} chunk answer was accepted (chunk size {s}, offset {off})"), json!({"script": script}));
                return;
            }
        }
        if disturbed && rbf.full_filter().map(|x| x.as_bytes().to_vec()) != before_full {
            c.violation("C34/client/rejected-answer-altered-filter", "a rejected chunk answer changed the filter", json!({"script": script}));
            return;
        }
        if c.rng.chance(1, 6) {
            // answer lost; the same offset must be asked again (not advanced)
            kinds |= 8;
            old_cookies.push(cookie);
            continue;
        }
        // the fitting answer, produced by the real server-side code and checked against the bytes
        let Some(resp) = req.to_response(&f) else {
            c.violation("C34/server/no-answer-for-valid-request", format!("offset {off} length {len} not answered"), json!({"script": script}));
            return;
        };
        if resp.bytes() != &fb[off as usize..off as usize + len as usize] {
            c.violation("C34/server/wrong-chunk", format!("chunk for offset {off} length {len} differs from the filter bytes"), json!({"script": script, "answer": hex(resp.bytes())}));
            return;
        }
        let r = rbf.handle_response(cookie, &resp);
        c.inc("direct_fitting");
        if r.is_err() {
            c.violation("C34/client/fitting-answer-rejected", format!("fitting answer for offset {off} rejected: {r:?}"), json!({"script": script}));
            return;
        }
        for b in covered[off as usize..off as usize + len as usize].iter_mut() {
            *b = true;
        }
        old_cookies.push(cookie);
        // a second answer to the same (now satisfied) request
        if c.rng.chance(1, 4) {
            c.inc("direct_unsolicited");
            kinds |= 16;
            let junk = c.rng.bytes(s as usize);
            let before = rbf.full_filter().map(|x| x.as_bytes().to_vec());
            if rbf.handle_response(cookie, &ReferenceIdResponse::decode(&junk)).is_ok() || rbf.full_filter().map(|x| x.as_bytes().to_vec()) != before {
                c.violation("C34/client/accepted-unsolicited", "a second answer for an already answered request was accepted", json!({"script": script}));
                return;
            }
        }
        // whenever the client claims to hold the complete filter it must be the server's; and once every
        // byte was covered by a fitting answer it must hold one
        let all = covered.iter().all(|x| *x);
        match rbf.full_filter() {
            Some(x) if x.as_bytes()[..] == fb[..] => {}
            None if !all => {}
            other => {
                c.violation(
                    format!("C34/client/filter-differs/chunk{s}"),
                    format!(
                        "after only fitting answers from a constant filter ({} of 512 bytes answered) the client holds {}",
                        covered.iter().filter(|x| **x).count(),
                        if other.is_some() { "a complete filter that differs from the server's" } else { "no complete filter" }
                    ),
                    json!({"script": script, "client": other.map(|x| hex(x.as_bytes()))}),
                );
                return;
            }
        }
    }
    let completed = covered.iter().all(|x| *x);
    if completed {
        c.inc("direct_completed");
    }
    c.sig_of(&("direct", s, kinds, density(&f), completed));
    c.sample(|| json!({"mode": "direct", "chunk": s, "ids": ids.len(), "steps": steps}));
}

fn session(c: &mut Case) {
    let nts = c.rng.chance(1, 3);
    let alg = *c.rng.pick(&[15u16, 17]);
    let keys = Keys::random(&mut c.rng, alg);
    let mut w = World::new(16, vec![], 0xE600_0000_0000_0000);
    let initial: Vec<Vec<u8>> = (0..8).map(|_| keys.real_cookie(&w.keyset)).collect();
    let addr: SocketAddr = "192.0.2.34:123".parse().unwrap();
    let u = w.add(UnitCfg { addr, ver: Ver::V5, poll_min: 4, poll_max: 10, desired: 4, nts: if nts { Some((keys.clone(), initial)) } else { None } });
    let (f, ids) = random_filter(c, 200);
    let fb = f.as_bytes().to_vec();
    w.set_server_info(u, |i| i.ntp_snapshot.bloom_filter = f);
    let mut log: Vec<Value> = vec![json!({"nts": nts, "server_filter": hex(&fb)})];
    let mut done: HashSet<u16> = HashSet::new();
    let mut kinds = 0u8;
    let mut history: Vec<Vec<u8>> = vec![];
    let mut last_unanswered_off: Option<u16> = None;
    for _ in 0..120 {
        let acts = match w.timer(u) {
            Ok(a) => a,
            Err(_) => return,
        };
        w.take_spy(u);
        let Some(raw) = first_send(&acts).cloned() else { break };
        let Some(req) = view_request(&raw) else { return };
        let Some((off, len)) = req.refid_req else {
            c.violation("C34/session/no-chunk-request", "an NTPv5 request without a reference-id chunk request", json!({"events": log, "request": hex(&raw)}));
            return;
        };
        log.push(json!({"request_chunk": {"offset": off, "length": len}}));
        if len == 0 || 512 % len != 0 || off as usize + len > 512 {
            c.violation("C34/session/bad-request", format!("chunk request offset {off} length {len}"), json!({"events": log}));
            return;
        }
        last_unanswered_off = Some(off);
        let genuine = w.serve(u, &raw, false);
        let now = w.now_local();
        // disturbances first
        if c.rng.chance(1, 4) && !history.is_empty() {
            // stale: an earlier genuine answer (other cookie)
            kinds |= 1;
            c.inc("session_stale");
            let old = c.rng.pick(&history).clone();
            let _ = w.incoming(u, &old, now, now + 5);
            log.push(json!({"stale_answer": true}));
        }
        let choice = c.rng.below(10);
        if choice == 0 {
            kinds |= 2; // lost
        } else if choice <= 2 && !nts {
            // a valid time answer whose chunk has the wrong size (plain sources: anyone on the path can do this)
            kinds |= 4;
            c.inc("session_wrong_size");
            let wrong = if c.rng.bool() { len / 2 } else { len * 2 }.max(4);
            let h = answer_header(&req, 2, [0; 4], now, now + 5, &mut c.rng);
            let mut fo = skeleton(&req, h, false);
            fo.pre.insert(0, Fld::new(refntp::EF_V5_REFID_RESP, c.rng.bytes(wrong)));
            let d = fo.emit(None, &mut c.rng);
            let _ = w.incoming(u, &d, now, now + 5);
            log.push(json!({"wrong_size_chunk_answer": wrong}));
        } else if let Some(g) = &genuine {
            let r = w.incoming(u, g, now, now + 5);
            let evs = w.take_spy(u);
            let accepted = evs.iter().any(|e| matches!(e, SpyEv::Meas { .. }));
            let chunk_ok = refntp::parse(g)
                .map(|p| p.fields.iter().any(|x| x.type_id == refntp::EF_V5_REFID_RESP && x.value.len() == len && x.value[..] == fb[off as usize..off as usize + len]))
                .unwrap_or(false);
            log.push(json!({"genuine_answer": {"accepted": accepted, "carries_exact_chunk": chunk_ok}}));
            if !chunk_ok {
                c.violation(
                    "C34/server/wrong-chunk",
                    format!("the server's answer to chunk request offset {off} length {len} does not carry filter[{off}..{}]", off as usize + len),
                    json!({"events": log, "answer": hex(g)}),
                );
                return;
            }
            if accepted {
                done.insert(off);
                last_unanswered_off = None;
            }
        }
        w.take_spy(u);
        if let Some(g) = genuine {
            history.push(g);
        }
        let got = w.observables(u).bloom;
        let all = done.len() * len == 512;
        if all {
            c.inc("session_completed");
        }
        if (all || got.is_some()) && got.as_deref() != Some(&fb[..]) {
            {
                c.violation(
                    format!("C34/session/filter-differs/{}", if nts { "nts" } else { "plain" }),
                    format!("{} chunk offsets were answered by the constant server; the source holds {}", done.len(), if got.is_some() { "a complete filter that differs" } else { "no complete filter" }),
                    json!({"events": log, "client": got.map(|x| hex(&x))}),
                );
                return;
            }
        }
        if all && c.rng.chance(1, 3) {
            break;
        }
        w.advance(Duration::from_secs(16));
    }
    c.sig_of(&("session", nts, kinds, density(&f), done.len()));
    c.sample(|| json!({"mode": "session", "nts": nts, "ids": ids.len(), "offsets_answered": done.len()}));
}

fn server(c: &mut Case) {
    let mut w = World::new(16, vec![], 0xE700_0000_0000_0000);
    let addr: SocketAddr = "192.0.2.35:123".parse().unwrap();
    let u = w.add(UnitCfg { addr, ver: Ver::V5, poll_min: 4, poll_max: 10, desired: 4, nts: None });
    let (f, _ids) = random_filter(c, 200);
    let fb = f.as_bytes().to_vec();
    w.set_server_info(u, |i| i.ntp_snapshot.bloom_filter = f);
    let mut kinds = 0u8;
    for _ in 0..30 {
        let off = match c.rng.below(3) {
            0 => (c.rng.below(128) * 4) as u16,
            1 => c.rng.below(600) as u16,
            _ => *c.rng.pick(&[0u16, 496, 508, 511, 512]),
        };
        let len = match c.rng.below(3) {
            0 => *c.rng.pick(&[4usize, 8, 16, 32, 64, 128, 256, 512]),
            1 => (c.rng.below(130) * 4) as usize,
            _ => c.rng.usize(2, 300),
        }
        .max(2);
        let mut val = vec![0u8; len];
        val[..2].copy_from_slice(&off.to_be_bytes());
        let hdr = refntp::RefHeader::request(5, 6, c.rng.u64());
        let mut d = hdr.encode();
        d.extend_from_slice(&encode_fields(&[Fld::new(refntp::EF_V5_DRAFT_ID, DRAFT_ID.to_vec()), Fld::new(refntp::EF_V5_REFID_REQ, val)], true));
        let rep = match guard(|| w.serve(u, &d, false)) {
            Ok(r) => r,
            Err(p) => {
                // C22's clause, not ours; just do not judge
                c.inc("server_panic_not_judged");
                continue;
            }
        };
        let Some(rep) = rep else {
            c.inc("server_silent");
            continue;
        };
        c.inc("server_replies_checked");
        let chunk = refntp::parse(&rep).and_then(|p| p.fields.into_iter().find(|x| x.type_id == refntp::EF_V5_REFID_RESP));
        let end = off as usize + len;
        match chunk {
            None => {
                c.inc("server_no_chunk");
                kinds |= 1;
            }
            Some(x) => {
                kinds |= 2;
                if end > 512 || x.value[..] != fb[off as usize..end] {
                    c.violation(
                        "C34/server/wrong-chunk-on-the-wire",
                        format!("request for offset {off} length {len}: reply carries {} bytes that are not filter[{off}..{end}]", x.value.len()),
                        json!({"request": hex(&d), "reply": hex(&rep), "filter": hex(&fb)}),
                    );
                    return;
                }
            }
        }
    }
    c.sig_of(&("server", kinds, density(&f)));
}

fn run(c: &mut Case) {
    match c.idx % 3 {
        0 => direct(c),
        1 => session(c),
        _ => server(c),
    }
}
