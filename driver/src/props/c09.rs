//! C09 — kiss-o'-death codes are handled conservatively.
//!
//! Events: actions of `handle_timer`/`handle_incoming`, poll exponent (decoded from the
//! wire) and timer of every request, spy events, state digest around NTS-NAK/unknown codes.
//! Oracle: a reference model over observables (reach register, deny mark, previous poll
//! exponent, the desired exponent the harness scripted).

use crate::common::refntp::{self, RefHeader};
use crate::common::srcbsim::{
    Act, Fld, Keys, ReqView, SpyEv, UnitCfg, Ver, World, acts_json, answer_header, first_send, first_timer, skeleton, view_request,
};
use crate::core::{Case, Profiles, Prop, Rng, Tier, hex};
use serde_json::{Value, json};
use std::net::SocketAddr;
use std::time::Duration;

pub static PROP: Prop = Prop {
    id: "C09",
    level: "exploration",
    rule: "case = one session of 5-60 polls of the real NtpSource: plain (NTPv4 answered in v3 or v4 encoding, v4-upgrading, NTPv5) or NTS \
           (v4/v5, AEAD 256/512), random poll limits (min 2-6, max min..12) and a desired exponent re-scripted at every poll; after each \
           request 0-3 VALID answers to it are delivered: usable (real Server or forged), RATE, DENY, RSTR, NTS-NAK, unknown KISS (for \
           NTS sealed under s2c with the uid; DENY also from the real Server's deny list). Every action list, the next poll \
           exponent/timer after a RATE, and the state digest around NTS-NAK/unknown codes are judged. Signature = (nts, version, \
           set of answer kinds seen, RATE judged weak/strong, demobilise seen at timer/at DENY).",
    assumptions: &[
        "RATE lengthening (one step up to the maximum) is only demanded when the desired exponent scripted for the previous poll was below that poll's exponent or equal to the configured minimum",
        "the converse 'a marked unreachable plain source must be demobilised' is not demanded; only 'demobilise => marked and unreachable in the model'",
        "NTPv5 NTS-NAK answers are generated with a poll field not above the request's (a larger one is also a rate request in NTPv5)",
        "the NTPv5-upgrade try counter / protocol version is not part of the synchronisation, polling or demobilisation state (an answered KISS may consume an upgrade try)",
    ],
    profiles: Profiles::Strict,
    cases: |t| t.pick(40_000, 400_000),
    budget_s: |t| t.pick(60, 600),
    run,
    min_nontrivial: 60,
    required_counters: &[
        "polls", "rate_valid", "rate_next_judged", "rate_lengthen_judged", "deny_nts", "deny_plain", "ntsn", "unknown_kiss",
        "usable_accepted", "timer_demobilize_after_deny",
    ],
    exhaustive: false,
    crash_is_violation: false,
};

#[derive(Clone, Copy, Debug, PartialEq, Eq, Hash)]
enum Ev {
    Usable,
    Rate,
    Deny,
    Rstr,
    Ntsn,
    Unknown,
}

fn kiss_hdr(req: &ReqView, ev: Ev, rng: &mut Rng, now: u64) -> RefHeader {
    let code: [u8; 4] = match ev {
        Ev::Rate => *b"RATE",
        Ev::Deny => *b"DENY",
        Ev::Rstr => *b"RSTR",
        Ev::Ntsn => *b"NTSN",
        _ => {
            let x = [b'A' + rng.below(26) as u8, b'A' + rng.below(26) as u8, b'A' + rng.below(26) as u8, b'A' + rng.below(26) as u8];
            if [*b"RATE", *b"DENY", *b"RSTR", *b"NTSN"].contains(&x) { *b"STEP" } else { x }
        }
    };
    let mut h = answer_header(req, 0, code, now, now + 3, rng);
    if req.version == 5 {
        h.leap = 3;
        h.flags = 0;
        match ev {
            Ev::Rate => h.poll = (req.poll as i16 + 1 + rng.below(3) as i16).min(126) as u8,
            Ev::Deny => h.poll = 127,
            Ev::Ntsn => {
                h.flags = 4;
                h.poll = if rng.bool() { req.poll as u8 } else { (req.poll as i16 - 1).max(0) as u8 };
            }
            _ => h.poll = if rng.bool() { req.poll as u8 } else { (req.poll as i16 - 1).max(0) as u8 },
        }
    }
    h
}

struct Model {
    reach: u8,
    deny_mark: bool,
    pending: bool,
    prev_poll: i8,
    desired_at_prev: i8,
    rate_since_poll: bool,
}

fn run(c: &mut Case) {
    let nts = c.rng.chance(2, 5);
    let ver = if nts { *c.rng.pick(&[Ver::V4, Ver::V5]) } else { *c.rng.pick(&[Ver::V4, Ver::V4, Ver::Upgrading, Ver::V5]) };
    let alg = *c.rng.pick(&[15u16, 17]);
    let keys = Keys::random(&mut c.rng, alg);
    let poll_min = c.rng.range(2, 6) as i8;
    let poll_max = if c.rng.chance(1, 8) { poll_min } else { c.rng.range(poll_min as i64, 12) as i8 };
    let mut w = World::new(16, vec![], 0xE300_0000_0000_0000 | c.rng.u32() as u64);
    let initial: Vec<Vec<u8>> = (0..c.rng.usize(3, 8)).map(|_| keys.real_cookie(&w.keyset)).collect();
    let addr: SocketAddr = "192.0.2.9:123".parse().unwrap();
    let mut desired = c.rng.range(poll_min as i64, poll_max as i64) as i8;
    let u = w.add(UnitCfg { addr, ver, poll_min, poll_max, desired, nts: if nts { Some((keys.clone(), initial)) } else { None } });
    let profile = c.rng.below(4); // 0 normal, 1 rate-heavy, 2 deny+silence, 3 mixed-kiss
    let polls = c.rng.usize(5, 60);
    let mut m = Model { reach: 0, deny_mark: false, pending: false, prev_poll: poll_min, desired_at_prev: desired, rate_since_poll: false };
    let mut log: Vec<Value> = vec![json!({"nts": nts, "version": format!("{ver:?}"), "aead": alg, "poll_min": poll_min, "poll_max": poll_max})];
    let (mut kinds, mut rate_strength, mut demob) = (0u8, 0u8, 0u8);
    let tag = format!("{}/{:?}", if nts { "nts" } else { "plain" }, ver).to_lowercase();
    let mut judged_any = false;

    'session: for _ in 0..polls {
        desired = if c.rng.chance(1, 3) { desired } else { c.rng.range(poll_min as i64, poll_max as i64) as i8 };
        w.set_desired(u, desired);
        let acts = match w.timer(u) {
            Ok(a) => a,
            Err(p) => {
                c.inc("panic_in_timer");
                break;
            }
        };
        w.take_spy(u);
        log.push(json!({"timer": {"desired": desired}, "actions": acts_json(&acts)}));
        if acts.contains(&Act::Demobilize) {
            c.inc("timer_demobilize");
            demob |= 1;
            if nts || !m.deny_mark || m.reach != 0 {
                c.violation(
                    format!("C09/timer-demobilize-unjustified/{tag}"),
                    format!(
                        "handle_timer demobilised: nts={nts}, DENY/RSTR seen since last usable answer={}, model reach register={:#010b}",
                        m.deny_mark, m.reach
                    ),
                    json!({"events": log}),
                );
                return;
            }
            c.inc("timer_demobilize_after_deny");
            break;
        }
        if acts.contains(&Act::Reset) {
            c.inc("timer_reset");
            break;
        }
        let (Some(raw), Some(timer)) = (first_send(&acts).cloned(), first_timer(&acts)) else {
            c.harness_error("timer gave neither send+timer nor reset/demobilize");
            return;
        };
        let Some(req) = view_request(&raw) else {
            c.harness_error("request not decodable");
            return;
        };
        c.inc("polls");
        let p = req.poll;
        if m.rate_since_poll {
            judged_any = true;
            c.inc("rate_next_judged");
            rate_strength |= 1;
            let prev = m.prev_poll;
            if p < prev || timer < Duration::from_secs_f64(2f64.powi(prev as i32)) {
                c.violation(
                    format!("C09/rate/polls-faster/{tag}"),
                    format!("after a valid RATE the next poll has exponent {p} / timer {:?}, the poll just made had exponent {prev}", timer),
                    json!({"events": log}),
                );
                return;
            }
            if m.desired_at_prev < prev || m.desired_at_prev == poll_min {
                c.inc("rate_lengthen_judged");
                rate_strength |= 2;
                let want = prev.max((prev + 1).min(poll_max));
                if p < want {
                    c.violation(
                        format!("C09/rate/not-lengthened/{tag}"),
                        format!(
                            "RATE answered a poll of exponent {prev} (own desired exponent then {}, configured {poll_min}..{poll_max}); next poll exponent {p} < {want}",
                            m.desired_at_prev
                        ),
                        json!({"events": log}),
                    );
                    return;
                }
            }
        }
        m.reach <<= 1;
        m.prev_poll = p;
        m.desired_at_prev = desired;
        m.rate_since_poll = false;
        m.pending = true;

        // answers to this request
        let n_ev = match profile {
            2 => c.rng.usize(0, 1),
            _ => c.rng.usize(0, 3),
        };
        for _ in 0..n_ev {
            if !m.pending {
                break;
            }
            let ev = match profile {
                1 => *c.rng.pick(&[Ev::Rate, Ev::Rate, Ev::Rate, Ev::Usable, Ev::Ntsn, Ev::Unknown]),
                2 => *c.rng.pick(&[Ev::Deny, Ev::Rstr, Ev::Unknown, Ev::Ntsn]),
                3 => *c.rng.pick(&[Ev::Rate, Ev::Deny, Ev::Rstr, Ev::Ntsn, Ev::Unknown, Ev::Usable]),
                _ => *c.rng.pick(&[Ev::Usable, Ev::Usable, Ev::Usable, Ev::Rate, Ev::Ntsn, Ev::Unknown, Ev::Deny]),
            };
            if ev == Ev::Rstr && req.version == 5 {
                continue; // NTPv5 has no RSTR
            }
            let now = w.now_local();
            // encoding: a plain NTPv4 request may be answered in NTPv3 form
            let mut areq = req.clone();
            if !nts && ver == Ver::V4 && c.rng.chance(1, 3) {
                areq.version = 3;
            }
            let (d, how): (Vec<u8>, &str) = match ev {
                Ev::Usable => {
                    if c.rng.chance(2, 3) {
                        match w.serve(u, &raw, false) {
                            Some(a) => (a, "real-server"),
                            None => continue,
                        }
                    } else {
                        let st = c.rng.range(1, 15) as u8;
                        let h = answer_header(&areq, st, [10, 1, 2, 3], now, now + 5, &mut c.rng);
                        let f = skeleton(&areq, h, nts);
                        (f.emit(if nts { Some(keys.s2c()) } else { None }.as_deref(), &mut c.rng), "forged")
                    }
                }
                Ev::Deny if nts && c.rng.bool() => match w.serve(u, &raw, true) {
                    Some(a) => (a, "real-server-denylist"),
                    None => continue,
                },
                Ev::Ntsn if nts => {
                    // as a server sends it: in the clear, uid echoed (or, rarely, sealed)
                    let h = kiss_hdr(&areq, ev, &mut c.rng, now);
                    if c.rng.chance(1, 4) {
                        (skeleton(&areq, h, true).emit(Some(keys.s2c().as_ref()), &mut c.rng), "sealed")
                    } else {
                        (skeleton(&areq, h, false).emit(None, &mut c.rng), "clear-with-uid")
                    }
                }
                _ => {
                    let h = kiss_hdr(&areq, ev, &mut c.rng, now);
                    let f = skeleton(&areq, h, nts);
                    (f.emit(if nts { Some(keys.s2c()) } else { None }.as_deref(), &mut c.rng), if nts { "sealed" } else { "clear" })
                }
            };
            // version negotiation (upgrade tries) is not synchronisation / polling / demobilisation state: masked
            let mask = |mut d: crate::common::srcbsim::Digest| {
                d.version = 0;
                d.upgrade_tries_left = 0;
                d
            };
            let before = mask(w.digest(u));
            let r = w.incoming(u, &d, now, now.wrapping_add(1 << 24));
            let evs = w.take_spy(u);
            let after = mask(w.digest(u));
            let acts = match r {
                Ok(a) => a,
                Err(p) => {
                    c.inc("panic_in_incoming");
                    break 'session;
                }
            };
            log.push(json!({"answer": format!("{ev:?}"), "how": how, "encoding_version": areq.version, "datagram": hex(&d), "actions": acts_json(&acts)}));
            kinds |= 1 << (ev as u8);
            judged_any = true;
            match ev {
                Ev::Usable => {
                    if evs.iter().filter(|e| matches!(e, SpyEv::Meas { .. })).count() == 2 {
                        c.inc("usable_accepted");
                        m.reach |= 1;
                        m.deny_mark = false;
                        m.pending = false;
                    } else {
                        c.inc("usable_not_accepted");
                    }
                    if acts.contains(&Act::Demobilize) {
                        c.violation(format!("C09/usable-demobilize/{tag}"), "a usable answer demobilised the source", json!({"events": log}));
                        return;
                    }
                }
                Ev::Rate => {
                    c.inc("rate_valid");
                    m.rate_since_poll = true;
                    if acts.contains(&Act::Demobilize) || acts.contains(&Act::Reset) {
                        c.violation(
                            format!("C09/rate/terminal-action/{tag}"),
                            format!("a RATE answer produced {acts:?}"),
                            json!({"events": log}),
                        );
                        return;
                    }
                }
                Ev::Deny | Ev::Rstr => {
                    if nts {
                        c.inc("deny_nts");
                        if !acts.contains(&Act::Demobilize) {
                            c.violation(
                                format!("C09/deny/nts-not-demobilized/{tag}"),
                                format!("authenticated {ev:?} ({how}) on an NTS source produced {acts:?} instead of Demobilize"),
                                json!({"events": log}),
                            );
                            return;
                        }
                        demob |= 2;
                        break 'session;
                    } else {
                        c.inc("deny_plain");
                        if !acts.is_empty() {
                            c.violation(
                                format!("C09/deny/plain-acted/{tag}"),
                                format!("unauthenticated {ev:?} on a plain source produced {acts:?} (should only be remembered)"),
                                json!({"events": log}),
                            );
                            return;
                        }
                        m.deny_mark = true;
                    }
                }
                Ev::Ntsn | Ev::Unknown => {
                    c.inc(if ev == Ev::Ntsn { "ntsn" } else { "unknown_kiss" });
                    let what = if ev == Ev::Ntsn { "nts-nak" } else { "unknown-kiss" };
                    if !acts.is_empty() || !evs.is_empty() || before != after {
                        let eff = if !acts.is_empty() {
                            "actions"
                        } else if !evs.is_empty() {
                            "controller-event"
                        } else {
                            "state"
                        };
                        c.violation(
                            format!("C09/{what}/{eff}/{tag}"),
                            format!("{ev:?} ({how}) changed the source: actions {acts:?}, controller events {evs:?}, state {before:?} -> {after:?}"),
                            json!({"events": log}),
                        );
                        return;
                    }
                }
            }
        }
        let dt = c.rng.range(1, 70) as u64;
        w.advance(Duration::from_secs(dt));
    }
    if judged_any {
        c.sig_of(&(nts, ver, kinds, rate_strength, demob));
    }
    c.sample(|| json!({"nts": nts, "version": format!("{ver:?}"), "answer_kinds_mask": kinds, "rate_judged": rate_strength, "demobilised": demob}));
}
