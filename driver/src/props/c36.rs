//! C36 — source (re)spawning is paced and follows removal reasons.
//!
//! Part 1 (pacing): the REAL `spawner_task` loop drives a spy `Spawner` that
//! records the virtual time (paused tokio clock) of every `try_spawn`, of every
//! event handler and of every change of its `is_complete` flag; the harness sends
//! system events with scripted timings (bursts, idle, exactly at the period).
//! Oracle on the recorded times: (P1) consecutive attempts start >= 1 s apart;
//! (P2) while the spy is incomplete and the channel is open, the next attempt
//! starts no later than max(became incomplete, previous attempt end + 1 s) + the
//! longest scripted event-handling step + 2 ms (timer granularity) — bounded
//! progress within a 60 s horizon.
//! Part 2 (removal reasons): the REAL `StandardSpawner` behind the same loop with
//! scripted DNS answers: after a demobilised removal no create ever follows; after
//! an unreachable removal a new lookup (resolver-table log) precedes the next
//! create and that create uses an address of the newest answer; after a
//! network-issue removal a new attempt (create or lookup) follows within the pace.

use crate::common::spawnsim::{DnsGuard, answer_json, dns_last_index, dns_log_len, install_dns};
use crate::core::{Case, Profiles, Prop, Tier};
use ntp_proto::{ClockId, SourceConfig};
use ntpd::verif::dns_inject::DnsAnswer;
use ntpd::verif::m::spawn::{
    SockSourceCreateParameters, SourceCreateParameters, SourceRemovalReason, SourceRemovedEvent, SpawnAction, SpawnEvent, Spawner,
    SpawnerId, SystemEvent, spawner_task,
};
use ntpd::verif::spawnx::standard_spawner;
use serde_json::{Value, json};
use std::collections::VecDeque;
use std::net::SocketAddr;
use std::sync::{Arc, Mutex, OnceLock};
use std::time::Duration;
use tokio::sync::mpsc;
use tokio::time::Instant;

pub static PROP: Prop = Prop {
    id: "C36",
    level: "exploration",
    rule: "case = (1) one schedule of <= 60 virtual seconds for the real spawner_task with a spy spawner: 5-60 system events \
           (registered / removed with any reason) sent after delays drawn from {same instant, 1-999 ms, 1-5 s, exactly one \
           period (+-1 ms) after the last attempt's start or end}, handlers taking 0-400 ms and (for removals) making the spy \
           incomplete, attempts taking 0-1500 ms and ending complete / incomplete / (rarely) with an error; (2) the real \
           StandardSpawner through the same loop for up to 6 create/remove rounds with DNS scripts (failures, empty answers, \
           changing addresses) and every removal reason. Non-trivial = at least one attempt (1) / create (2) was observed; \
           distinct signature = hash of the (event kind, quantised gap) sequence and of the (reason, outcome) sequence.",
    assumptions: &[
        "tokio's paused clock is the time base; timers have 1 ms granularity, hence the 2 ms slack in the progress bound",
        "'keeps attempting' is judged as bounded progress within the 60 s horizon",
        "a network-issue removal is only required to lead to a new attempt; whether it re-resolves is not judged",
        "StandardSpawner resolution connects a UDP socket to the answer (local operation): loopback addresses are used",
    ],
    profiles: Profiles::Strict,
    cases: |t| t.pick(6_000, 200_000),
    budget_s: |t| t.pick(40, 300),
    run,
    min_nontrivial: 200,
    required_counters: &[
        "spy_attempts",
        "attempt_gaps_judged",
        "progress_obligations_judged",
        "events_sent",
        "std_creates",
        "std_removed_demobilized",
        "std_removed_unreachable",
        "std_removed_network_issue",
        "std_lookups",
    ],
    exhaustive: false,
    crash_is_violation: false,
};

const PERIOD_US: u64 = 1_000_000;
const SLACK_US: u64 = 2_000;

#[derive(Clone, Copy, Debug)]
struct AttemptPlan {
    dur_ms: u64,
    /// 0 = stays incomplete, 1 = becomes complete, 2 = error (the task ends)
    outcome: u8,
}

#[derive(Clone, Copy, Debug)]
struct HandlerPlan {
    dur_ms: u64,
    make_incomplete: bool,
}

struct SpyState {
    t0: Instant,
    complete: bool,
    /// (start, end, outcome) in microseconds of virtual time
    attempts: Vec<(u64, u64, u8)>,
    /// (time, complete flag after the change)
    changes: Vec<(u64, bool)>,
    /// (start, end, kind)
    handled: Vec<(u64, u64, &'static str)>,
    attempt_plans: VecDeque<AttemptPlan>,
    handler_plans: VecDeque<HandlerPlan>,
}

impl SpyState {
    fn now(&self) -> u64 {
        Instant::now().duration_since(self.t0).as_micros() as u64
    }
}

struct Spy {
    st: Arc<Mutex<SpyState>>,
    id: SpawnerId,
}

#[derive(Debug)]
struct SpyError;
impl std::fmt::Display for SpyError {
    fn fmt(&self, f: &mut std::fmt::Formatter<'_>) -> std::fmt::Result {
        f.write_str("scripted spawner error")
    }
}
impl std::error::Error for SpyError {}

impl Spy {
    async fn handle(&mut self, kind: &'static str, may_flip: bool) {
        let (plan, start) = {
            let mut s = self.st.lock().unwrap();
            let p = s.handler_plans.pop_front().unwrap_or(HandlerPlan { dur_ms: 0, make_incomplete: false });
            (p, s.now())
        };
        if plan.dur_ms > 0 {
            tokio::time::sleep(Duration::from_millis(plan.dur_ms)).await;
        }
        let mut s = self.st.lock().unwrap();
        let end = s.now();
        s.handled.push((start, end, kind));
        if may_flip && plan.make_incomplete && s.complete {
            s.complete = false;
            s.changes.push((end, false));
        }
    }
}

impl Spawner for Spy {
    type Error = SpyError;

    async fn try_spawn(&mut self, _action_tx: &mpsc::Sender<SpawnEvent>) -> Result<(), SpyError> {
        let (plan, start) = {
            let mut s = self.st.lock().unwrap();
            let p = s.attempt_plans.pop_front().unwrap_or(AttemptPlan { dur_ms: 0, outcome: 0 });
            (p, s.now())
        };
        if plan.dur_ms > 0 {
            tokio::time::sleep(Duration::from_millis(plan.dur_ms)).await;
        }
        let mut s = self.st.lock().unwrap();
        let end = s.now();
        s.attempts.push((start, end, plan.outcome));
        if plan.outcome == 1 && !s.complete {
            s.complete = true;
            s.changes.push((end, true));
        }
        if plan.outcome == 2 { Err(SpyError) } else { Ok(()) }
    }

    fn is_complete(&self) -> bool {
        self.st.lock().unwrap().complete
    }

    async fn handle_source_removed(&mut self, _event: SourceRemovedEvent) -> Result<(), SpyError> {
        self.handle("removed", true).await;
        Ok(())
    }

    async fn handle_registered(&mut self, _event: SourceCreateParameters) -> Result<(), SpyError> {
        self.handle("registered", false).await;
        Ok(())
    }

    fn get_id(&self) -> SpawnerId {
        self.id
    }
    fn get_addr_description(&self) -> String {
        "spy".into()
    }
    fn get_description(&self) -> &'static str {
        "spy"
    }
}

fn reason(c: &mut Case) -> (SourceRemovalReason, &'static str) {
    match c.rng.below(3) {
        0 => (SourceRemovalReason::Demobilized, "demobilized"),
        1 => (SourceRemovalReason::NetworkIssue, "network-issue"),
        _ => (SourceRemovalReason::Unreachable, "unreachable"),
    }
}

fn pacing_part(c: &mut Case, rt: &tokio::runtime::Runtime) {
    let n_events = c.rng.usize(5, 60);
    let initially_complete = c.rng.bool();
    let n_attempt_plans = c.rng.usize(0, 40);
    let attempt_style = c.rng.below(4);
    let attempt_plans: VecDeque<AttemptPlan> = (0..n_attempt_plans)
        .map(|_| AttemptPlan {
            dur_ms: *c.rng.pick(&[0u64, 0, 0, 1, 100, 700, 999, 1000, 1500]),
            outcome: match attempt_style {
                0 => 0,
                1 => 1,
                _ => {
                    if c.rng.chance(1, 60) {
                        2
                    } else {
                        c.rng.below(2) as u8
                    }
                }
            },
        })
        .collect();
    // delay kind, event kind, handler plan
    let script: Vec<(u8, u8, HandlerPlan)> = (0..n_events)
        .map(|_| {
            let dk = *c.rng.pick(&[0u8, 0, 1, 1, 1, 2, 3, 3, 4]);
            let ek = c.rng.below(4) as u8; // 0 registered, 1-3 removed
            let hp = HandlerPlan { dur_ms: *c.rng.pick(&[0u64, 0, 0, 5, 200, 400]), make_incomplete: c.rng.chance(2, 3) };
            (dk, ek, hp)
        })
        .collect();
    let hmax_us = script.iter().map(|s| s.2.dur_ms).max().unwrap_or(0) * 1000;

    let result = rt.block_on(async {
        let t0 = Instant::now();
        let st = Arc::new(Mutex::new(SpyState {
            t0,
            complete: initially_complete,
            attempts: Vec::new(),
            changes: Vec::new(),
            handled: Vec::new(),
            attempt_plans: attempt_plans.clone(),
            handler_plans: VecDeque::new(),
        }));
        let (action_tx, _action_rx) = mpsc::channel::<SpawnEvent>(32);
        let (notify_tx, notify_rx) = mpsc::channel::<SystemEvent>(32);
        let spy = Spy { st: st.clone(), id: SpawnerId::new() };
        let mut task = tokio::spawn(spawner_task(spy, action_tx, notify_rx));
        // the JoinHandle must not be polled again once it has completed
        let mut task_result = None;
        let mut sent: Vec<(u64, u8, u8)> = Vec::new();
        let us = |i: Instant| i.duration_since(t0).as_micros() as u64;
        for (dk, ek, hp) in &script {
            let now = Instant::now();
            let (last_start, last_end) = {
                let s = st.lock().unwrap();
                s.attempts.last().map(|a| (a.0, a.1)).unwrap_or((0, 0))
            };
            let delta = *c.rng.pick(&[-1i64, 0, 0, 1]);
            let target = match dk {
                0 => now,
                1 => now + Duration::from_millis(1 + c.rng.below(999)),
                2 => now + Duration::from_millis(1000 + c.rng.below(4000)),
                3 => t0 + Duration::from_micros((last_end as i64 + 1_000_000 + delta * 1000).max(0) as u64),
                _ => t0 + Duration::from_micros((last_start as i64 + 1_000_000 + delta * 1000).max(0) as u64),
            };
            if us(target.max(now)) > 57_000_000 {
                break;
            }
            if target > now {
                tokio::time::sleep_until(target).await;
            }
            if task_result.is_some() || task.is_finished() {
                break;
            }
            let ev = match ek {
                0 => SystemEvent::SourceRegistered(SourceCreateParameters::Sock(SockSourceCreateParameters {
                    id: ClockId::new(),
                    path: "/nonexistent".into(),
                    config: SourceConfig::default(),
                    precision: 1e-3,
                    accuracy: 0.0,
                })),
                k => SystemEvent::source_removed(
                    ClockId::new(),
                    match k {
                        1 => SourceRemovalReason::Demobilized,
                        2 => SourceRemovalReason::NetworkIssue,
                        _ => SourceRemovalReason::Unreachable,
                    },
                ),
            };
            st.lock().unwrap().handler_plans.push_back(*hp);
            let at = us(Instant::now());
            // a full channel only delays the harness; the spawner keeps running meanwhile
            tokio::select! {
                r = notify_tx.send(ev) => { if r.is_err() { break; } }
                res = &mut task => { task_result = Some(res); break; }
            }
            sent.push((at, *dk, *ek));
        }
        // idle tail up to the horizon, then close the channel
        let horizon = t0 + Duration::from_secs(60);
        if task_result.is_none() {
            tokio::select! {
                _ = tokio::time::sleep_until(horizon) => {}
                res = &mut task => { task_result = Some(res); }
            }
        }
        let t_close = us(Instant::now());
        drop(notify_tx);
        let join = match task_result {
            Some(r) => Some(r),
            None => tokio::time::timeout(Duration::from_secs(5), &mut task).await.ok(),
        };
        let task_state = match join {
            Some(Ok(Ok(()))) => "ended-ok",
            Some(Ok(Err(_))) => "ended-with-spawner-error",
            Some(Err(e)) if e.is_panic() => "panicked",
            Some(Err(_)) => "join-error",
            None => "still-running-after-close",
        };
        let s = st.lock().unwrap();
        (s.attempts.clone(), s.changes.clone(), s.handled.clone(), sent, t_close, task_state)
    });
    let (attempts, changes, handled, sent, t_close, task_state) = result;
    c.count("spy_attempts", attempts.len() as u64);
    c.count("events_sent", sent.len() as u64);
    c.count("events_handled", handled.len() as u64);

    let detail = |extra: Value| {
        json!({
            "initially_complete": initially_complete,
            "attempt_plans_ms_outcome": attempt_plans.iter().map(|p| json!([p.dur_ms, p.outcome])).collect::<Vec<_>>(),
            "events_sent_us_delaykind_eventkind": sent.iter().map(|s| json!([s.0, s.1, s.2])).collect::<Vec<_>>(),
            "handler_plans_ms_flip": script.iter().map(|s| json!([s.2.dur_ms, s.2.make_incomplete])).collect::<Vec<_>>(),
            "attempts_start_end_outcome_us": attempts.iter().map(|a| json!([a.0, a.1, a.2])).collect::<Vec<_>>(),
            "complete_flag_changes_us": changes.iter().map(|x| json!([x.0, x.1])).collect::<Vec<_>>(),
            "handled_start_end_kind_us": handled.iter().map(|h| json!([h.0, h.1, h.2])).collect::<Vec<_>>(),
            "channel_closed_at_us": t_close, "task_state": task_state, "observed": extra,
        })
    };
    match task_state {
        "panicked" | "still-running-after-close" | "join-error" => {
            c.harness_error(format!("pacing part: spawner task {task_state}"));
            return;
        }
        _ => {}
    }

    // P1: at most one attempt per period
    for w in attempts.windows(2) {
        c.inc("attempt_gaps_judged");
        let gap = w[1].0 - w[0].0;
        if gap < PERIOD_US {
            c.violation(
                "attempts-closer-than-period",
                format!("two spawn attempts started {gap} us apart (at {} and {} us); the network wait period is 1 s", w[0].0, w[1].0),
                detail(json!({"gap_us": gap})),
            );
            break;
        }
    }

    // P2: bounded progress while incomplete
    let t_err = attempts.iter().find(|a| a.2 == 2).map(|a| a.1);
    let t_end = t_err.unwrap_or(t_close).min(t_close);
    let mut intervals: Vec<(u64, u64)> = Vec::new();
    let mut cur: Option<u64> = if initially_complete { None } else { Some(0) };
    for (t, flag) in &changes {
        match (cur, *flag) {
            (Some(a), true) => {
                intervals.push((a, *t));
                cur = None;
            }
            (None, false) => cur = Some(*t),
            _ => {}
        }
    }
    if let Some(a) = cur {
        intervals.push((a, t_end));
    }
    'outer: for (a, b) in intervals {
        let b = b.min(t_end);
        if a >= b {
            continue;
        }
        let last_end_before = attempts.iter().filter(|x| x.1 <= a).map(|x| x.1).max();
        let mut reference = match last_end_before {
            Some(e) => a.max(e + PERIOD_US),
            None => a,
        };
        let mut search_from = a;
        loop {
            let deadline = reference + hmax_us + SLACK_US;
            let next = attempts.iter().find(|x| x.0 >= search_from && x.0 < b);
            match next {
                Some(x) if x.0 <= deadline => {
                    c.inc("progress_obligations_judged");
                    reference = x.1 + PERIOD_US;
                    search_from = x.1.max(x.0 + 1);
                }
                other => {
                    if deadline < b {
                        c.inc("progress_obligations_judged");
                        c.violation(
                            "no-attempt-while-incomplete",
                            format!(
                                "the spawner was incomplete with the channel open from {a} us to {b} us, an attempt was due by {deadline} us \
                                 (reference {reference} us + longest handler {hmax_us} us + 2 ms) but {}",
                                match other {
                                    Some(x) => format!("the next attempt started at {} us", x.0),
                                    None => "none followed".to_string(),
                                }
                            ),
                            detail(json!({"interval_us": [a, b], "deadline_us": deadline})),
                        );
                        break 'outer;
                    }
                    break;
                }
            }
        }
    }

    if !attempts.is_empty() {
        let mut shape: Vec<(u8, u8, u8)> = Vec::new();
        let mut prev = 0u64;
        for s in &sent {
            let gap = s.0 - prev;
            prev = s.0;
            let q = match gap {
                0 => 0,
                1..=999 => 1,
                1_000..=99_999 => 2,
                100_000..=998_999 => 3,
                999_000..=1_001_000 => 4,
                1_001_001..=2_000_000 => 5,
                _ => 6,
            };
            shape.push((s.2, q, s.1));
        }
        c.sig_of(&("pacing", initially_complete, shape, attempts.len().min(20)));
    }
    c.sample(|| json!({"part": "pacing", "attempt_starts_us": attempts.iter().map(|a| a.0).collect::<Vec<_>>(), "events": sent.len(), "task_state": task_state}));
}

fn udp_loopback_ok() -> bool {
    static OK: OnceLock<bool> = OnceLock::new();
    *OK.get_or_init(|| std::net::UdpSocket::bind("0.0.0.0:0").and_then(|s| s.connect("127.0.0.9:123")).is_ok())
}

const STD_NAME: &str = "single.verif.test";

fn standard_part(c: &mut Case, rt: &tokio::runtime::Runtime) {
    if !udp_loopback_ok() {
        c.harness_error("cannot connect a UDP socket to loopback: StandardSpawner resolution cannot be exercised");
        return;
    }
    // DNS script: every answer uses fresh addresses so that a stale address is recognisable
    let n_ans = c.rng.usize(1, 10);
    let mut next_octet = 1u8;
    let mut answers: Vec<DnsAnswer> = Vec::new();
    for i in 0..n_ans {
        let last = i + 1 == n_ans;
        let kind = if last { 2 } else { c.rng.below(6) };
        match kind {
            0 => answers.push(DnsAnswer::Error),
            1 => answers.push(DnsAnswer::Addrs(vec![])),
            _ => {
                let k = if c.rng.chance(1, 3) { 2 } else { 1 };
                let mut v = Vec::new();
                for _ in 0..k {
                    v.push(SocketAddr::from(([127, 0, 0, next_octet], 123)));
                    next_octet = next_octet.wrapping_add(1).max(1);
                }
                answers.push(DnsAnswer::Addrs(v));
            }
        }
    }
    install_dns(STD_NAME, 123, answers.clone());
    let _guard = DnsGuard;
    let script_json = json!({"dns_answers_in_order_last_repeats": answers.iter().map(answer_json).collect::<Vec<_>>()});
    let rounds = c.rng.usize(1, 6);
    let mut log: Vec<Value> = Vec::new();
    let mut shape: Vec<(u8, u8)> = Vec::new();
    rt.block_on(async {
        let t0 = Instant::now();
        let us = || Instant::now().duration_since(t0).as_micros() as u64;
        let (action_tx, mut action_rx) = mpsc::channel::<SpawnEvent>(32);
        let (notify_tx, notify_rx) = mpsc::channel::<SystemEvent>(32);
        let task = tokio::spawn(spawner_task(standard_spawner(STD_NAME, 123), action_tx, notify_rx));
        // previous removal: (reason name, dns log length when the removal was sent, time)
        let mut prev: Option<(&'static str, usize, u64)> = None;
        let mut created = 0u32;
        'rounds: for round in 0..rounds + 1 {
            // wait for the next create in steps of 50 virtual ms
            let wait_start = us();
            let lookups_at_wait_start = dns_log_len();
            let mut got: Option<(ClockId, SocketAddr, SourceCreateParameters)> = None;
            let max_wait_us: u64 = match prev {
                Some(("demobilized", _, _)) => 5_000_000,
                _ => 15_000_000,
            };
            let mut attempt_seen_by: Option<u64> = None;
            while us() - wait_start <= max_wait_us {
                if let Ok(ev) = action_rx.try_recv() {
                    let SpawnAction::Create(params) = ev.action;
                    if let SourceCreateParameters::Ntp(p) = &params {
                        got = Some((p.id, p.addr, params));
                    }
                    break;
                }
                if attempt_seen_by.is_none() && dns_log_len() > lookups_at_wait_start {
                    attempt_seen_by = Some(us());
                }
                if task.is_finished() {
                    break;
                }
                tokio::time::sleep(Duration::from_millis(50)).await;
            }
            let detail = |log: &Vec<Value>, extra: Value| json!({"script": script_json, "events": log, "observed": extra});
            match (&got, prev) {
                (Some((_, addr, _)), Some(("demobilized", _, t_rm))) => {
                    log.push(json!({"t_us": us(), "create": addr.to_string()}));
                    c.violation(
                        "respawn-after-demobilize",
                        format!("the single-server spawner created a new source for {addr} after its source was demobilised at {t_rm} us"),
                        detail(&log, json!({})),
                    );
                    shape.push((9, 1));
                    break 'rounds;
                }
                (None, Some(("demobilized", _, _))) => {
                    c.inc("std_demobilized_stayed_down");
                    shape.push((9, 0));
                    break 'rounds;
                }
                (Some((_, addr, _)), Some(("unreachable", l_rm, t_rm))) => {
                    let l_now = dns_log_len();
                    log.push(json!({"t_us": us(), "create": addr.to_string(), "lookups_so_far": l_now}));
                    c.inc("std_create_after_unreachable_judged");
                    if l_now <= l_rm {
                        c.violation(
                            "no-relookup-after-unreachable",
                            format!("after an unreachable removal at {t_rm} us the next source ({addr}) was created without a new name lookup ({l_now} lookups before and after)"),
                            detail(&log, json!({"lookups_at_removal": l_rm, "lookups_at_create": l_now})),
                        );
                    } else if let Some(DnsAnswer::Addrs(v)) = dns_last_index().map(|i| &answers[i.min(answers.len() - 1)]) {
                        if !v.contains(addr) {
                            c.violation(
                                "stale-address-after-unreachable",
                                format!("after an unreachable removal the next source uses {addr}, which is not in the newest DNS answer"),
                                detail(&log, json!({"newest_answer": v.iter().map(|a| a.to_string()).collect::<Vec<_>>() })),
                            );
                        }
                    }
                }
                (Some((_, addr, _)), _) => {
                    log.push(json!({"t_us": us(), "create": addr.to_string(), "lookups_so_far": dns_log_len()}));
                }
                (None, Some((r, l_rm, t_rm))) => {
                    // no create within 15 virtual seconds: was there at least a new attempt?
                    if dns_log_len() <= l_rm {
                        c.violation(
                            format!("no-attempt-after-{r}"),
                            format!("after a {r} removal at {t_rm} us neither a create nor a name lookup followed within 15 virtual seconds"),
                            detail(&log, json!({})),
                        );
                    }
                    break 'rounds;
                }
                (None, None) => {
                    if dns_log_len() == 0 {
                        c.harness_error("standard spawner never looked up its name");
                    }
                    break 'rounds;
                }
            }
            let Some((id, addr, params)) = got else { break };
            created += 1;
            c.inc("std_creates");
            if let Some(("network-issue", _, t_rm)) = prev {
                // the cached address lets the create follow at the pace of the loop
                c.inc("std_create_after_network_issue");
            }
            if round == rounds {
                break;
            }
            if notify_tx.send(SystemEvent::SourceRegistered(params)).await.is_err() {
                break;
            }
            let dwell = *c.rng.pick(&[0u64, 1, 200, 999, 1000, 1001, 2500, 7000]);
            tokio::time::sleep(Duration::from_millis(dwell)).await;
            let (r, rname) = reason(c);
            c.inc(match rname {
                "demobilized" => "std_removed_demobilized",
                "unreachable" => "std_removed_unreachable",
                _ => "std_removed_network_issue",
            });
            shape.push((
                match rname {
                    "demobilized" => 0,
                    "unreachable" => 1,
                    _ => 2,
                },
                (dwell >= 1000) as u8,
            ));
            prev = Some((rname, dns_log_len(), us()));
            log.push(json!({"t_us": us(), "remove": addr.to_string(), "reason": rname, "lookups_so_far": dns_log_len()}));
            if notify_tx.send(SystemEvent::source_removed(id, r)).await.is_err() {
                break;
            }
        }
        drop(notify_tx);
        let _ = tokio::time::timeout(Duration::from_secs(5), task).await;
        if created > 0 {
            c.sig_of(&("standard", shape.clone(), answers.len(), created));
        }
    });
    c.count("std_lookups", dns_log_len() as u64);
    c.sample(|| json!({"part": "standard", "script": script_json, "events": log}));
}

fn run(c: &mut Case) {
    let rt = match tokio::runtime::Builder::new_current_thread().enable_all().start_paused(true).build() {
        Ok(rt) => rt,
        Err(e) => {
            c.harness_error(format!("runtime: {e}"));
            return;
        }
    };
    pacing_part(c, &rt);
    drop(rt);
    let rt = match tokio::runtime::Builder::new_current_thread().enable_all().start_paused(true).build() {
        Ok(rt) => rt,
        Err(e) => {
            c.harness_error(format!("runtime: {e}"));
            return;
        }
    };
    standard_part(c, &rt);
}
