//! C33 — advertised stratum and loop avoidance.
//!
//! Events: every `set_usable` the real `NtpSource` gives to its controller, and the
//! `NtpSnapshot` returned by `NtpManager::update_used_sources`.
//! Oracle: the monitor's own must-reject rule from what it put on the wire (stratum,
//! reference id, Bloom filter), the local address list and local stratum it configured.

use crate::common::refntp;
use crate::common::srcbsim::{
    Act, Keys, SpyEv, UnitCfg, Ver, World, acts_json, answer_header, first_send, ref_id_of_ip, skeleton, view_request,
};
use crate::core::{Case, Profiles, Prop, Tier, hex};
use ntp_proto::verif::m::packet::v5::server_reference_id::{BloomFilter, ServerId};
use ntp_proto::verif::src2 as hk;
use ntp_proto::{ClockId, SourceType};
use rand::SeedableRng;
use serde_json::{Value, json};
use std::collections::HashSet;
use std::net::{IpAddr, Ipv4Addr, Ipv6Addr, SocketAddr};
use std::time::Duration;

pub static PROP: Prop = Prop {
    id: "C33",
    level: "exploration",
    rule: "case kind A (idx%4 != 0): a daemon (real NtpManager, local stratum 1-16, 0-4 local addresses v4/v6) with 1-4 plain NTPv4 sources \
           (v4/v6 addresses, some of them local addresses); 10-60 steps of poll / forged answer with chosen stratum (1-16) and reference id \
           (random, a local address's id, the source's own id) / silence / local address list change / update_used_sources over a random \
           ordered subset of the sources that have reported. Kind B (idx%4 == 0): one NTPv5 source (plain or NTS) fed by the real Server \
           whose Bloom filter does or does not contain this daemon's server id, polled until all 32 chunks arrived. Every set_usable(true) \
           is judged by the must-reject rule; every snapshot by stratum = primary + 1 / reference id = primary's id. Signature = (kind, \
           reject reasons seen, usable-true seen, address families, snapshot sizes).",
    assumptions: &[
        "stratum-1 sources are exempt from both identifier tests (narrow reading of the statement's parenthesis)",
        "'this daemon itself' = the source's address is one of the configured local addresses",
        "'unreachable' = no usable answer to any of the last eight polls, the poll sent together with the set_usable event included (RFC 5905 reach register, as documented on the Reach type)",
        "the Bloom clause is demanded once fitting answers for all 32 chunk offsets of a constant filter were accepted",
        "reference id of an IPv6 address = first four octets of its MD5 (RFC 5905), computed by the monitor's own MD5",
    ],
    profiles: Profiles::Strict,
    cases: |t| t.pick(30_000, 300_000),
    budget_s: |t| t.pick(60, 600),
    run,
    min_nontrivial: 60,
    required_counters: &[
        "usable_events", "usable_true", "must_reject_stratum", "must_reject_unreachable", "must_reject_self", "must_reject_refid_loop",
        "must_reject_bloom", "snapshots_judged", "snapshots_empty", "bloom_complete",
    ],
    exhaustive: false,
    crash_is_violation: false,
};

struct UModel {
    addr: IpAddr,
    v5: bool,
    stratum: Option<u8>,
    refid: [u8; 4],
    /// polls sent since the last accepted answer (None = never answered)
    polls_since: Option<u32>,
    offsets_done: HashSet<u16>,
    filter_has_own: bool,
}

fn random_ip(c: &mut Case) -> IpAddr {
    if c.rng.chance(2, 3) {
        IpAddr::V4(Ipv4Addr::new(10, c.rng.below(3) as u8, c.rng.below(3) as u8, 1 + c.rng.below(6) as u8))
    } else {
        IpAddr::V6(Ipv6Addr::new(0x2001, 0xdb8, 0, 0, 0, 0, c.rng.below(3) as u16, 1 + c.rng.below(6) as u16))
    }
}

struct Judge<'a> {
    local_stratum: u8,
    local_ips: &'a [IpAddr],
}

/// reasons why a source must not be used right now (empty = the statement does not forbid it)
fn must_reject(j: &Judge, m: &UModel, at_timer: bool) -> Vec<&'static str> {
    let mut r = vec![];
    if let Some(s) = m.stratum {
        if s >= j.local_stratum {
            r.push("stratum");
        }
    }
    let unreachable = match m.polls_since {
        None => true,
        // the set_usable at a timer comes with the Send of one more poll: that poll counts (RFC 5905 reach register)
        Some(n) => at_timer && n + 1 >= 8,
    };
    if unreachable {
        r.push("unreachable");
    }
    if let Some(s) = m.stratum {
        if s != 1 && j.local_ips.contains(&m.addr) {
            r.push("self");
        }
        if s > 1 && !m.v5 && j.local_ips.iter().any(|ip| ref_id_of_ip(*ip) == m.refid) {
            r.push("refid-loop");
        }
    }
    if m.v5 && m.offsets_done.len() == 32 && m.filter_has_own {
        r.push("bloom");
    }
    r
}

fn judge_usable(c: &mut Case, evs: &[SpyEv], j: &Judge, m: &UModel, at_timer: bool, log: &Vec<Value>, seen: &mut u32) {
    for e in evs {
        if let SpyEv::Usable(u) = e {
            c.inc("usable_events");
            let reasons = must_reject(j, m, at_timer);
            for (i, name) in ["stratum", "unreachable", "self", "refid-loop", "bloom"].iter().enumerate() {
                if reasons.contains(name) {
                    *seen |= 1 << i;
                    c.inc(&format!("must_reject_{}", name.replace('-', "_")));
                }
            }
            if *u {
                c.inc("usable_true");
                *seen |= 1 << 8;
                if let Some(first) = reasons.first() {
                    // report the most specific reason: a later one in the list if it is the only cause
                    let reason = if reasons.len() == 1 { first } else { reasons.last().unwrap() };
                    c.violation(
                        format!("C33/usable/{}", if reasons.len() == 1 { (*reason).to_string() } else { reasons.join("+") }),
                        format!(
                            "source {} (reported stratum {:?}, reported reference id {:?}, polls since last usable answer {:?}) was declared usable \
                             although it must not be used: {:?}; local stratum {}, local addresses {:?}",
                            m.addr, m.stratum, m.refid, m.polls_since, reasons, j.local_stratum, j.local_ips
                        ),
                        json!({"reasons": reasons, "source": m.addr.to_string(), "reported_stratum": m.stratum, "reported_reference_id": m.refid,
                               "local_stratum": j.local_stratum, "local_addresses": j.local_ips.iter().map(|i| i.to_string()).collect::<Vec<_>>(),
                               "local_address_ids": j.local_ips.iter().map(|i| ref_id_of_ip(*i)).collect::<Vec<_>>(), "events": log}),
                    );
                }
            }
        }
    }
}

fn kind_a(c: &mut Case) {
    let local_stratum = if c.rng.chance(1, 2) { 16 } else { c.rng.range(1, 16) as u8 };
    let mut local_ips: Vec<IpAddr> = (0..c.rng.usize(0, 4)).map(|_| random_ip(c)).collect();
    let mut w = World::new(local_stratum, local_ips.clone(), 0xE400_0000_0000_0000);
    let n = c.rng.usize(1, 4);
    let mut models = vec![];
    let mut log: Vec<Value> = vec![json!({"local_stratum": local_stratum, "local_addresses": local_ips.iter().map(|i| i.to_string()).collect::<Vec<_>>()})];
    for _ in 0..n {
        let ip = if !local_ips.is_empty() && c.rng.chance(1, 4) { *c.rng.pick(&local_ips) } else { random_ip(c) };
        let addr = SocketAddr::new(ip, 123);
        w.add(UnitCfg { addr, ver: Ver::V4, poll_min: 4, poll_max: 10, desired: 4, nts: None });
        models.push(UModel { addr: ip, v5: false, stratum: None, refid: [0; 4], polls_since: None, offsets_done: HashSet::new(), filter_has_own: false });
        log.push(json!({"source": ip.to_string()}));
    }
    let steps = c.rng.usize(10, 60);
    // some daemons sit behind a lossy path: long silences make sources unreachable
    let p_answer = if c.rng.chance(1, 4) { 1 } else { 3 };
    let mut seen = 0u32;
    let mut fam = 0u8;
    let mut snap_sizes = 0u8;
    for ip in local_ips.iter().chain(models.iter().map(|m| &m.addr)) {
        fam |= if ip.is_ipv4() { 1 } else { 2 };
    }
    for _ in 0..steps {
        match c.rng.below(10) {
            0 => {
                // the daemon's address list changes
                local_ips = (0..c.rng.usize(0, 4)).map(|_| if c.rng.chance(1, 3) && !models.is_empty() { models[c.rng.below(models.len() as u64) as usize].addr } else { random_ip(c) }).collect();
                w.set_local_ips(local_ips.clone());
                log.push(json!({"local_addresses": local_ips.iter().map(|i| i.to_string()).collect::<Vec<_>>()}));
            }
            1 | 2 => {
                // publish: random ordered subset of sources that have reported
                let mut cand: Vec<usize> = (0..n).filter(|i| models[*i].stratum.is_some()).collect();
                c.rng.shuffle(&mut cand);
                let k = c.rng.usize(0, cand.len());
                cand.truncate(k);
                let snap = w.mgr.update_used_sources(cand.iter().map(|i| (w.units[*i].id, SourceType::Ntp)));
                let got_ref = hk::refid_bytes(snap.reference_id);
                c.inc("snapshots_judged");
                snap_sizes |= 1 << k.min(4);
                log.push(json!({"update_used_sources": cand, "stratum": snap.stratum, "reference_id": got_ref}));
                match cand.first() {
                    None => {
                        c.inc("snapshots_empty");
                        if snap.stratum != local_stratum {
                            c.violation(
                                "C33/snapshot/stratum-without-sources",
                                format!("no used sources: advertised stratum {} instead of the configured local stratum {local_stratum}", snap.stratum),
                                json!({"events": log}),
                            );
                        }
                    }
                    Some(p) => {
                        let m = &models[*p];
                        let want = m.stratum.unwrap() as u16 + 1;
                        if snap.stratum as u16 != want {
                            c.violation(
                                "C33/snapshot/stratum",
                                format!("primary source {} reported stratum {:?}; advertised stratum {} instead of {want}", m.addr, m.stratum, snap.stratum),
                                json!({"events": log}),
                            );
                        }
                        if got_ref != ref_id_of_ip(m.addr) {
                            c.violation(
                                format!("C33/snapshot/reference-id/{}", if m.addr.is_ipv4() { "v4" } else { "v6" }),
                                format!("primary source {}: advertised reference id {:?}, its identifier is {:?}", m.addr, got_ref, ref_id_of_ip(m.addr)),
                                json!({"events": log}),
                            );
                        }
                    }
                }
            }
            _ => {
                let u = c.rng.below(n as u64) as usize;
                let acts = match w.timer(u) {
                    Ok(a) => a,
                    Err(_) => return,
                };
                let evs = w.take_spy(u);
                let j = Judge { local_stratum, local_ips: &local_ips };
                log.push(json!({"timer": u, "events": format!("{evs:?}")}));
                judge_usable(c, &evs, &j, &models[u], true, &log, &mut seen);
                let Some(raw) = first_send(&acts).cloned() else {
                    // Reset/Demobilize: the daemon would drop this source; stop the case
                    break;
                };
                if let Some(nq) = models[u].polls_since.as_mut() {
                    *nq += 1;
                }
                let Some(req) = view_request(&raw) else { return };
                if c.rng.chance(p_answer, 4) {
                    // a usable answer with chosen stratum / reference id
                    let stratum = match c.rng.below(6) {
                        0 => 1,
                        1 => 16,
                        2 => local_stratum.saturating_sub(1).max(1),
                        3 => local_stratum,
                        _ => c.rng.range(1, 15) as u8,
                    };
                    let refid: [u8; 4] = match c.rng.below(4) {
                        0 if !local_ips.is_empty() => ref_id_of_ip(*c.rng.pick(&local_ips)),
                        1 => ref_id_of_ip(models[u].addr),
                        2 => *b"GPS\0",
                        _ => [c.rng.u8() | 1, c.rng.u8(), c.rng.u8(), c.rng.u8()],
                    };
                    let now = w.now_local();
                    let h = answer_header(&req, stratum, refid, now, now + 5, &mut c.rng);
                    let d = skeleton(&req, h, false).emit(None, &mut c.rng);
                    let r = w.incoming(u, &d, now, now + 77);
                    let evs = w.take_spy(u);
                    let accepted = evs.iter().any(|e| matches!(e, SpyEv::Meas { .. }));
                    log.push(json!({"answer_to": u, "stratum": stratum, "reference_id": refid, "datagram": hex(&d), "accepted": accepted, "events": format!("{evs:?}")}));
                    if r.is_err() {
                        return;
                    }
                    if accepted {
                        let m = &mut models[u];
                        m.stratum = Some(stratum);
                        m.refid = refid;
                        m.polls_since = Some(0);
                        c.inc("answers_accepted");
                    }
                    let j = Judge { local_stratum, local_ips: &local_ips };
                    judge_usable(c, &evs, &j, &models[u], false, &log, &mut seen);
                }
                w.advance(Duration::from_secs(16));
            }
        }
    }
    c.sig_of(&("A", seen, fam, snap_sizes, n));
    c.sample(|| json!({"kind": "A", "sources": n, "local_stratum": local_stratum, "reasons_seen_mask": seen}));
}

fn kind_b(c: &mut Case) {
    let local_stratum = if c.rng.chance(2, 3) { 16 } else { c.rng.range(3, 16) as u8 };
    let mut w = World::new(local_stratum, vec![], 0xE500_0000_0000_0000);
    let nts = c.rng.chance(1, 3);
    let alg = *c.rng.pick(&[15u16, 17]);
    let keys = Keys::random(&mut c.rng, alg);
    let initial: Vec<Vec<u8>> = (0..8).map(|_| keys.real_cookie(&w.keyset)).collect();
    let ip = IpAddr::V4(Ipv4Addr::new(192, 0, 2, 33));
    let u = w.add(UnitCfg { addr: SocketAddr::new(ip, 123), ver: Ver::V5, poll_min: 4, poll_max: 10, desired: 4, nts: if nts { Some((keys, initial)) } else { None } });
    // the remote server's filter: random ids, with or without ours
    let own = w.mgr.update_used_sources(std::iter::empty()).bloom_filter;
    let mut srng = rand::rngs::StdRng::seed_from_u64(c.rng.u64());
    let mut f = BloomFilter::new();
    for _ in 0..c.rng.usize(0, 40) {
        f.add_id(&ServerId::new(&mut srng));
    }
    let with_own = c.rng.chance(1, 2);
    if with_own {
        f.add(&own);
    }
    // the monitor's own containment test on the bytes
    let has_own = own.as_bytes().iter().zip(f.as_bytes().iter()).all(|(o, x)| o & x == *o);
    let server_stratum = c.rng.range(1, 14) as u8;
    w.set_server_info(u, |i| {
        i.ntp_snapshot.bloom_filter = f;
        i.ntp_snapshot.stratum = server_stratum;
    });
    let mut m = UModel { addr: ip, v5: true, stratum: None, refid: [0; 4], polls_since: None, offsets_done: HashSet::new(), filter_has_own: has_own };
    let mut log: Vec<Value> = vec![json!({"kind": "B", "nts": nts, "local_stratum": local_stratum, "server_stratum": server_stratum,
        "server_filter_contains_own_id": has_own, "own_id_bits": hex(own.as_bytes()), "server_filter": hex(f.as_bytes())})];
    let mut seen = 0u32;
    let local_ips: Vec<IpAddr> = vec![];
    for _ in 0..c.rng.usize(36, 48) {
        let acts = match w.timer(u) {
            Ok(a) => a,
            Err(_) => return,
        };
        let evs = w.take_spy(u);
        let j = Judge { local_stratum, local_ips: &local_ips };
        judge_usable(c, &evs, &j, &m, true, &log, &mut seen);
        let Some(raw) = first_send(&acts).cloned() else { break };
        if let Some(nq) = m.polls_since.as_mut() {
            *nq += 1;
        }
        let Some(req) = view_request(&raw) else { return };
        if c.rng.chance(9, 10) {
            let Some(ans) = w.serve(u, &raw, false) else { continue };
            let now = w.now_local();
            let r = w.incoming(u, &ans, now, now + 55);
            let evs = w.take_spy(u);
            if r.is_err() {
                return;
            }
            if evs.iter().any(|e| matches!(e, SpyEv::Meas { .. })) {
                m.stratum = Some(server_stratum);
                m.polls_since = Some(0);
                // which chunk did this answer carry (reference decoding of request and answer)
                if let (Some((off, len)), Some(p)) = (req.refid_req, refntp::parse(&ans)) {
                    if p.fields.iter().any(|x| x.type_id == refntp::EF_V5_REFID_RESP && x.value.len() == len) {
                        m.offsets_done.insert(off);
                        if m.offsets_done.len() == 32 {
                            c.inc("bloom_complete");
                        }
                    }
                }
            }
            log.push(json!({"answered_chunks": m.offsets_done.len(), "events": format!("{evs:?}")}));
            judge_usable(c, &evs, &j, &m, false, &log, &mut seen);
        }
        w.advance(Duration::from_secs(16));
    }
    c.sig_of(&("B", seen, nts, has_own, m.offsets_done.len() == 32));
    c.sample(|| json!({"kind": "B", "nts": nts, "filter_has_own_id": has_own, "chunks": m.offsets_done.len(), "reasons_seen_mask": seen}));
}

fn run(c: &mut Case) {
    if c.idx % 4 == 0 {
        kind_b(c);
    } else {
        kind_a(c);
    }
}
