//! C43 — the PTP clock controller reports and steers consistently.
//!
//! Events: `KalmanController::{clock_offset, clock_frequency}` results, every `set_frequency` /
//! `step_clock` call on recording `Clock` implementations, and (through guarded read-only accessors)
//! the filter's own offset/frequency estimates.
//! Oracle: (1) the frequency query equals the filter's frequency estimate and is not the offset;
//! (2) every frequency set on a clock is within that clock's own maximum; (3) the estimate right after a
//! measurement call equals the estimate right before steering (same measurement replayed on a clone of
//! the controller's filter, clock time held still) plus the step / frequency change the clock received.

use std::sync::{Arc, Mutex};

use crate::core::{Case, Profiles, Prop, Tier, guard};
use serde_json::json;
use statime_algo::verif::ctl;
use statime_algo::verif::m::filter::LinkFilterConfig;
use statime_algo::{KalmanController, KalmanLink, Measurement, StdKalmanStorage};
use statime_base::{Clock, ClockError, ClockId, DirectedLinkId, Direction, Duration, LeapStatus, TAI, Timestamp};

pub static PROP: Prop = Prop {
    id: "C43",
    level: "exploration",
    rule: "case = one KalmanController (Std storage) with 1-4 recording clocks (system clock maximum 1e-5..5e-4, other clocks with \
           different maxima 2e-5..1e-3, non-zero current frequency settings), 1-3 external clocks, tracked and untracked links \
           (system<->external, other<->system, other<->external), and a sequence of 10-40 measurement round trips with offsets of both \
           signs from 1e-7 s to 5 s, uncertainties 1e-9..1e-4 s and 0..100 s between them, which drives both the frequency branch \
           (incl. clamping at the maximum) and the step branch of the steering code. Non-trivial = shape signature per measurement \
           (number of clocks, link kind, which clocks were stepped / frequency-steered / clamped); distinct signatures are counted.",
    assumptions: &[
        "the pre-steering estimate is computed by replaying progress_time + measurement on a clone of the controller's LinkFilter (guarded accessor); only the steering arithmetic is judged",
        "sign convention: stepping a clock by s adds s to its offset estimate; raising its frequency setting by d adds d to its frequency estimate",
    ],
    profiles: Profiles::Both,
    cases: |t| t.pick(30_000, 600_000),
    budget_s: |t| t.pick(30, 300),
    run,
    min_nontrivial: 30,
    required_counters: &[
        "frequency_queries_checked", "set_frequency_checked", "clamped_set_frequency", "steps_checked", "frequency_changes_checked",
        "non_system_clock_steered", "measurements_applied",
    ],
    exhaustive: false,
    crash_is_violation: false,
};

struct World {
    now: Timestamp<TAI>,
}

#[derive(Clone, Debug)]
enum Call {
    SetFrequency { freq: f64, before: f64 },
    Step { seconds: f64 },
}

struct Inner {
    stepped: Duration,
    freq: f64,
    max_freq: f64,
    calls: Vec<Call>,
}

#[derive(Clone)]
struct RecClock {
    world: Arc<Mutex<World>>,
    inner: Arc<Mutex<Inner>>,
}

impl RecClock {
    fn new(world: &Arc<Mutex<World>>, max_freq: f64, freq: f64) -> RecClock {
        RecClock { world: world.clone(), inner: Arc::new(Mutex::new(Inner { stepped: Duration::ZERO, freq, max_freq, calls: vec![] })) }
    }
    fn read(&self) -> Timestamp<TAI> {
        self.world.lock().unwrap().now + self.inner.lock().unwrap().stepped
    }
}

impl Clock for RecClock {
    fn now(&self) -> Result<Timestamp<TAI>, ClockError> {
        Ok(self.read())
    }
    fn set_frequency(&self, freq: f64) -> Result<Timestamp<TAI>, ClockError> {
        {
            let mut i = self.inner.lock().unwrap();
            let before = i.freq;
            i.calls.push(Call::SetFrequency { freq, before });
            i.freq = freq;
        }
        Ok(self.read())
    }
    fn get_frequency(&self) -> Result<f64, ClockError> {
        Ok(self.inner.lock().unwrap().freq)
    }
    fn max_frequency(&self) -> Result<f64, ClockError> {
        Ok(self.inner.lock().unwrap().max_freq)
    }
    fn step_clock(&self, offset: Duration) -> Result<Timestamp<TAI>, ClockError> {
        {
            let mut i = self.inner.lock().unwrap();
            i.stepped = i.stepped + offset;
            i.calls.push(Call::Step { seconds: offset.as_seconds() });
        }
        Ok(self.read())
    }
    fn error_estimate_update(&self, _e: Duration, _m: Duration) -> Result<(), ClockError> {
        Ok(())
    }
    fn leap_update(&self, _l: LeapStatus) -> Result<(), ClockError> {
        Ok(())
    }
    fn synchronization_update(&self, _s: bool) -> Result<(), ClockError> {
        Ok(())
    }
}

type S = StdKalmanStorage<RecClock>;
struct CtlRef(Arc<KalmanController<S, RecClock>>);
impl AsRef<KalmanController<S, RecClock>> for CtlRef {
    fn as_ref(&self) -> &KalmanController<S, RecClock> {
        &self.0
    }
}

fn close(a: f64, b: f64, scale: f64) -> bool {
    (a - b).abs() <= 1e-9 * scale.abs().max(a.abs()).max(b.abs()) + 1e-12
}

fn run(c: &mut Case) {
    let world = Arc::new(Mutex::new(World { now: Timestamp::from_seconds_nanos_since_unix_epoch(4_000_000 + c.rng.below(1000), 0) }));
    let sys_max = *c.rng.pick(&[1e-4, 1e-4, 5e-4, 1e-5]);
    let sys = RecClock::new(&world, sys_max, c.rng.f64_range(-sys_max, sys_max));
    let cfg = LinkFilterConfig {
        select_offset_uncertainty_window: 2.0,
        select_link_uncertainty_window: 2.0,
        select_delay_uncertainty_window: 0.7,
        select_max_window_size: 100.0,
        minimum_agreeing_sources: 1,
    };
    let Ok(Ok((ctl, sys_id))) = guard(|| KalmanController::<S, RecClock>::new(sys.clone(), 1e-8, cfg.clone())) else {
        c.harness_error("cannot construct a KalmanController".to_string());
        return;
    };
    let ctl = Arc::new(ctl);
    let mut script: Vec<String> = vec![format!("system clock: max_frequency {sys_max:e}, current frequency {:e}", sys.inner.lock().unwrap().freq)];
    let mut clocks: Vec<(ClockId, RecClock)> = vec![(sys_id, sys.clone())];
    let n_other = c.rng.below(4) as usize;
    for _ in 0..n_other {
        let max = *c.rng.pick(&[2e-5, 5e-5, 1e-4, 1e-3]);
        let clk = RecClock::new(&world, max, c.rng.f64_range(-max, max));
        match guard(|| ctl.add_clock(clk.clone(), 1e-8)) {
            Ok(Ok(id)) => {
                script.push(format!("clock {id:?}: max_frequency {max:e}, current frequency {:e}", clk.inner.lock().unwrap().freq));
                clocks.push((id, clk));
            }
            _ => return,
        }
    }
    let n_ext = c.rng.usize(1, 3);
    let mut externals = vec![];
    for _ in 0..n_ext {
        match guard(|| ctl.add_external_clock()) {
            Ok(Ok(id)) => externals.push(id),
            _ => return,
        }
    }
    // links: every external to the system clock; every other clock to the system clock or to an external
    struct L {
        link: KalmanLink<CtlRef, S, RecClock>,
        kind: &'static str,
        /// true offset (second - first clock reading) the generated measurements are built around
        offset: f64,
        delay: f64,
    }
    let mut links: Vec<L> = vec![];
    let mut mk = |c: &mut Case, a: ClockId, b: ClockId, kind: &'static str, ext: bool, script: &mut Vec<String>| -> Option<L> {
        let tracked = c.rng.chance(1, 3);
        let r = guard(|| {
            if tracked {
                KalmanController::create_tracked_link(CtlRef(ctl.clone()), a, b, 0.01)
            } else {
                KalmanController::create_untracked_link(CtlRef(ctl.clone()), a, b)
            }
        });
        let Ok(Ok(link)) = r else { return None };
        if ext {
            let _ = guard(|| link.external_data_update(Duration::from_f64_seconds(1e-4), Some(LeapStatus::None), true));
        }
        let mag = match c.rng.below(4) {
            0 => c.rng.log_uniform(1e-7, 1e-4),
            1 => c.rng.log_uniform(1e-4, 1e-2),
            2 => c.rng.log_uniform(1e-2, 5.0),
            _ => c.rng.log_uniform(1e-5, 1e-1),
        };
        let offset = if c.rng.bool() { mag } else { -mag };
        script.push(format!("{} link {:?} ({kind}), generated offset {offset:e}", if tracked { "tracked" } else { "untracked" }, ctl::link_id(&link)));
        Some(L { link, kind, offset, delay: if tracked { c.rng.log_uniform(1e-6, 1e-3) } else { 0.0 } })
    };
    for &e in &externals {
        let (a, b) = if c.rng.bool() { (sys_id, e) } else { (e, sys_id) };
        if let Some(l) = mk(c, a, b, "system-external", true, &mut script) {
            links.push(l);
        }
    }
    for i in 1..clocks.len() {
        let id = clocks[i].0;
        let to_ext = c.rng.chance(1, 3);
        let other = if to_ext { *c.rng.pick(&externals) } else { sys_id };
        let (a, b) = if c.rng.bool() { (id, other) } else { (other, id) };
        if let Some(l) = mk(c, a, b, if to_ext { "other-external" } else { "other-system" }, to_ext, &mut script) {
            links.push(l);
        }
    }
    if links.is_empty() {
        return;
    }
    let n_meas = c.rng.usize(10, 40);
    for step in 0..n_meas {
        let li = c.rng.below(links.len() as u64) as usize;
        // occasionally the true offset of the link moves (drift / someone stepped a clock)
        if c.rng.chance(1, 4) {
            let mag = c.rng.log_uniform(1e-7, 1.0);
            links[li].offset = if c.rng.bool() { mag } else { -mag };
        }
        for dir in [Direction::Forward, Direction::Reverse] {
            let l = &links[li];
            let id = ctl::link_id(&l.link);
            let u = c.rng.log_uniform(1e-9, 1e-4);
            let v = if dir == Direction::Forward { l.offset + l.delay } else { -l.offset + l.delay };
            let send = sys.read();
            let meas = Measurement { send_timestamp: send, recv_timestamp: send + Duration::from_f64_seconds(v), uncertainty: Duration::from_f64_seconds(u) };
            let value = (meas.recv_timestamp - meas.send_timestamp).as_seconds();
            let unc = meas.uncertainty.as_seconds();
            script.push(format!("measurement {step} on {id:?} {dir:?}: recv-send = {value:e} s, uncertainty {unc:e} s, clock reads {send:?}"));
            // ---- the estimate right before steering (time held still at `now`) ----
            let now = sys.read();
            let (filter, fcfg) = ctl::clone_filter(&ctl);
            let shadow = guard(|| {
                filter
                    .progress_time(now)?
                    .measurement(&fcfg, DirectedLinkId::new(id, dir), (value, unc).into())?
                    .progress_time(now)
            });
            let Ok(Ok(shadow)) = shadow else {
                c.inc("shadow_failed");
                let _ = guard(|| l.link.measurement(meas, dir));
                continue;
            };
            for (_, clk) in &clocks {
                clk.inner.lock().unwrap().calls.clear();
            }
            // ---- the real call ----
            match guard(|| l.link.measurement(meas, dir)) {
                Ok(Ok(())) => {}
                Ok(Err(_)) => {
                    c.inc("measurement_failed");
                    continue;
                }
                Err(_) => {
                    c.inc("measurement_panicked");
                    return; // RwLock poisoned
                }
            }
            c.inc("measurements_applied");
            let mut shape: Vec<(bool, &'static str)> = vec![];
            for (ci, (cid, clk)) in clocks.iter().enumerate() {
                let cid = *cid;
                let (max, calls) = {
                    let i = clk.inner.lock().unwrap();
                    (i.max_freq, i.calls.clone())
                };
                let (Ok(pre_o), Ok(pre_f)) = (shadow.clock_offset(cid), shadow.clock_frequency(cid)) else { continue };
                let post_o = ctl.clock_offset(cid);
                let post_f = ctl::with_filter(&ctl, |f, _| f.clock_frequency(cid));
                let post_off_filter = ctl::with_filter(&ctl, |f, _| f.clock_offset(cid));
                let detail = |extra: serde_json::Value| {
                    json!({
                        "clock": format!("{cid:?}"), "clock_index": ci, "clock_max_frequency": max, "script": script,
                        "calls_on_this_clock": format!("{calls:?}"),
                        "estimate_before_steering": {"offset": pre_o.value, "offset_uncertainty": pre_o.uncertainty, "frequency": pre_f.value},
                        "observed": extra,
                    })
                };
                // (1) the frequency query
                if let (Ok(q), Ok(f), Ok(o)) = (ctl.clock_frequency(cid), &post_f, &post_off_filter) {
                    c.inc("frequency_queries_checked");
                    let same = |a: &statime_algo::verif::m::estimator::UncertainValue, b: &statime_algo::verif::m::estimator::UncertainValue| {
                        a.value.to_bits() == b.value.to_bits() && a.uncertainty.to_bits() == b.uncertainty.to_bits()
                    };
                    if !same(&q, f) {
                        let is_offset = same(&q, o);
                        c.violation(
                            if is_offset { "frequency-query-returns-offset" } else { "frequency-query-wrong" },
                            format!(
                                "clock_frequency() reports {:e} +- {:e}; the filter's frequency estimate is {:e} +- {:e}, its offset estimate {:e} +- {:e}",
                                q.value, q.uncertainty, f.value, f.uncertainty, o.value, o.uncertainty
                            ),
                            detail(json!({"clock_frequency": [q.value, q.uncertainty], "filter_frequency": [f.value, f.uncertainty], "filter_offset": [o.value, o.uncertainty]})),
                        );
                    }
                }
                // the arithmetic of clause 3 is undefined on non-finite estimates (a filter that has broken down
                // numerically reports NaN): the statement is silent there, so those clocks are only counted
                let finite = pre_o.value.is_finite()
                    && pre_f.value.is_finite()
                    && post_o.as_ref().map(|v| v.value.is_finite()).unwrap_or(false)
                    && post_f.as_ref().map(|v| v.value.is_finite()).unwrap_or(false);
                if !finite {
                    c.inc("nonfinite_estimates_not_judged");
                }
                // (2)+(3) what the clock was told
                let mut what = "untouched";
                for call in &calls {
                    if ci != 0 {
                        c.inc("non_system_clock_steered");
                    }
                    match call {
                        Call::SetFrequency { freq, before } => {
                            c.inc("set_frequency_checked");
                            what = "frequency";
                            if freq.abs() == max {
                                c.inc("clamped_set_frequency");
                                what = "clamped";
                            }
                            if !(freq.abs() <= max) {
                                c.violation(
                                    if ci == 0 { "set-frequency-beyond-maximum/system-clock" } else { "set-frequency-beyond-maximum/other-clock" },
                                    format!("set_frequency({freq:e}) on a clock whose maximum frequency is {max:e}"),
                                    detail(json!({"set_frequency": freq, "maximum": max})),
                                );
                            }
                            if let (Ok(pf), true) = (&post_f, finite) {
                                c.inc("frequency_changes_checked");
                                let applied = freq - before;
                                let want = pre_f.value + applied;
                                if !close(pf.value, want, applied) {
                                    c.violation(
                                        if freq.abs() == max { "frequency-estimate-after-steer/clamped" } else { "frequency-estimate-after-steer/unclamped" },
                                        format!(
                                            "the frequency setting changed by {applied:e} ({before:e} -> {freq:e}); the frequency estimate went from {:e} to {:e}, expected {want:e}",
                                            pre_f.value, pf.value
                                        ),
                                        detail(json!({"applied_change": applied, "frequency_before": pre_f.value, "frequency_after": pf.value})),
                                    );
                                }
                            }
                        }
                        Call::Step { seconds } => {
                            c.inc("steps_checked");
                            what = "step";
                            if let (Ok(po), true) = (&post_o, finite) {
                                let want = pre_o.value + seconds;
                                if !close(po.value, want, *seconds) {
                                    // Duration saturates at +-2^63 s: an absurdly large step is applied truncated
                                    let saturated = seconds.abs() >= 9.2e18;
                                    if saturated {
                                        c.inc("saturated_steps");
                                    }
                                    c.violation(
                                        match (saturated, ci == 0) {
                                            (true, _) => "offset-estimate-after-step/saturated-step",
                                            (false, true) => "offset-estimate-after-step/system-clock",
                                            (false, false) => "offset-estimate-after-step/other-clock",
                                        },
                                        format!(
                                            "the clock was stepped by {seconds:e} s; the offset estimate went from {:e} to {:e}, expected {want:e}",
                                            pre_o.value, po.value
                                        ),
                                        detail(json!({"step": seconds, "offset_before": pre_o.value, "offset_after": po.value})),
                                    );
                                }
                            }
                        }
                    }
                }
                if calls.len() > 1 {
                    c.inc("clock_steered_twice_in_one_call");
                }
                shape.push((ci == 0, what));
            }
            c.sig_of(&(clocks.len(), links[li].kind, &shape, dir == Direction::Forward));
            if c.wants_sample() && step == 3 {
                let s = script.clone();
                c.sample(|| json!({"script": s}));
            }
        }
        // time passes
        let dt = match c.rng.below(4) {
            0 => 0.0,
            1 => c.rng.f64_range(0.0, 0.3),
            2 => c.rng.f64_range(0.3, 16.0),
            _ => c.rng.f64_range(16.0, 100.0),
        };
        let mut w = world.lock().unwrap();
        w.now = w.now + Duration::from_f64_seconds(dt);
    }
    let _ = guard(move || drop(links));
}
