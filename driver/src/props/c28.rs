//! C28 — NTS key exchange negotiates only mutually supported parameters.
//!
//! Events: the real client's `KeyExchangeResult` (protocol, keys, cookies), the real
//! server's records on the wire (decoded by the independent codec), its cookies opened
//! with the server key set, and keying material exported by the harness's own scripted
//! TLS endpoint.
//!
//! Three scenarios (all real TLS 1.3 over `tokio::io::duplex`, harness PKI):
//!  * `pair`   — real client (every mode) <-> real server (every accepted-version list);
//!               the client's offered lists are first *observed* by a scripted server;
//!  * `server` — scripted client sends arbitrary preference lists to the real server;
//!  * `client` — real client talks to a scripted server naming offered / unoffered /
//!               unknown parameters with 0..12 cookies.

use std::borrow::Cow;

use crate::common::kecodec::{self as kc, Rec};
use crate::common::kesim as ke;
use crate::core::{Case, Profiles, Prop, guard, hex};
use ntp_proto::verif::ke::{ResultParts, decode_cookie, result_parts};
use ntp_proto::verif::nts::a7::nts_error_kind;
use ntp_proto::{NtpVersion, NtsError, ProtocolVersion};
use serde_json::{Value, json};
use tokio::io::AsyncWriteExt;

pub static PROP: Prop = Prop {
    id: "C28",
    level: "exploration",
    rule: "case = one scenario: 'pair' (real client mode x real server accepted-version list, the client's offer observed \
           beforehand by a scripted server), 'server' (scripted client request with protocol/algorithm preference lists of \
           0-6 ids incl. unknown ids and duplicates, ignorable extra records, shuffled order, split writes, against a real \
           server with a random accepted-version list) or 'client' (real client in a random mode against a scripted server \
           response naming an offered / unoffered-known / unknown protocol and algorithm with 0-12 cookies and optional \
           server/port/unknown records). Non-trivial = the TLS handshake completed and the monitored endpoint produced its \
           result/response; distinct shape = (scenario, client mode or list pattern, accepted-version pattern, expected \
           selection, outcome class, cookie count).",
    assumptions: &[
        "rustls/aws-lc are trusted; the harness calls the TLS exporter itself on the opposite endpoint with the RFC 8915 label and a context it builds from the ids on the wire",
        "cookies are opened with the server's own KeySet::decode_cookie (the statement's 'decode'); everything else on the wire is decoded by the harness codec",
        "the server supports AEAD ids 15 (32-byte keys) and 17 (64-byte keys); NtpVersion V4/V5 are protocol ids 0/0x8001, V3 has no NTS protocol id",
        "only requests/responses that the harness's reference grammar calls well-formed are judged for 'must select'; a client that returns an error has adopted nothing",
    ],
    profiles: Profiles::Strict,
    cases: |t| t.pick(900, 24_000),
    budget_s: |t| t.pick(45, 420),
    run,
    min_nontrivial: 40,
    required_counters: &[
        "pair_exchanges_judged",
        "server_selections_judged",
        "server_cookies_decoded",
        "client_adoptions_judged",
        "client_refusals_seen",
        "response_named_unoffered_protocol",
        "response_named_unknown_algorithm",
    ],
    exhaustive: false,
    crash_is_violation: false,
};

const SUPPORTED_AEAD: &[u16] = &[kc::AEAD_SIV_256, kc::AEAD_SIV_512];

fn mode_name(m: &ProtocolVersion) -> String {
    match m {
        ProtocolVersion::V4 => "V4".into(),
        ProtocolVersion::V5 => "V5".into(),
        ProtocolVersion::UpgradedToV5 => "UpgradedToV5".into(),
        ProtocolVersion::V4UpgradingToV5 { tries_left } => format!("V4UpgradingToV5({tries_left})"),
    }
}

fn any_mode(c: &mut Case) -> ProtocolVersion {
    match c.rng.below(5) {
        0 => ProtocolVersion::V4,
        1 => ProtocolVersion::V5,
        2 => ProtocolVersion::UpgradedToV5,
        3 => ProtocolVersion::v4_upgrading_to_v5_with_default_tries(),
        _ => ProtocolVersion::V4UpgradingToV5 { tries_left: *c.rng.pick(&[0u8, 1, 7, 255]) },
    }
}

fn any_accepted(c: &mut Case) -> Vec<NtpVersion> {
    const ALL: &[&[NtpVersion]] = &[
        &[],
        &[NtpVersion::V3],
        &[NtpVersion::V4],
        &[NtpVersion::V5],
        &[NtpVersion::V4, NtpVersion::V5],
        &[NtpVersion::V5, NtpVersion::V4],
        &[NtpVersion::V3, NtpVersion::V4],
        &[NtpVersion::V3, NtpVersion::V5],
        &[NtpVersion::V3, NtpVersion::V4, NtpVersion::V5],
        &[NtpVersion::V5, NtpVersion::V3, NtpVersion::V4],
        &[NtpVersion::V4, NtpVersion::V4, NtpVersion::V5],
        &[NtpVersion::V5, NtpVersion::V5],
    ];
    // the interesting ones (both protocols, either order) get more weight
    match c.rng.below(10) {
        0..=2 => vec![NtpVersion::V4, NtpVersion::V5],
        3..=4 => vec![NtpVersion::V5, NtpVersion::V4],
        _ => c.rng.pick(ALL).to_vec(),
    }
}

fn versions_json(v: &[NtpVersion]) -> Value {
    json!(v.iter().map(|x| format!("{x:?}")).collect::<Vec<_>>())
}

fn first_in(list: &[u16], set: &[u16]) -> Option<u16> {
    list.iter().copied().find(|x| set.contains(x))
}

fn proto_of_version(v: u8) -> Option<u16> {
    match v {
        4 => Some(kc::PROTO_NTPV4),
        5 => Some(kc::PROTO_NTPV5),
        _ => None,
    }
}

fn aead_of_keylen(n: usize) -> Option<u16> {
    match n {
        32 => Some(kc::AEAD_SIV_256),
        64 => Some(kc::AEAD_SIV_512),
        _ => None,
    }
}

fn parts_json(p: &ResultParts) -> Value {
    json!({
        "protocol_version": p.version, "remote": p.remote, "port": p.port,
        "c2s_key_hex": hex(&p.c2s), "s2c_key_hex": hex(&p.s2c), "cookies": p.cookies.len(),
    })
}

/// Reference grammar for a plain key-exchange request (RFC 8915 section 4 + ntpd-rs pool
/// records): returns the offered (protocols, algorithms) when the message is well-formed.
pub fn wellformed_ke_request(recs: &[Rec], total_len: usize) -> Option<(Vec<u16>, Vec<u16>)> {
    if total_len > 4096 || recs.last().map(|r| r.typ) != Some(kc::T_EOM) {
        return None;
    }
    let mut protos = None;
    let mut aeads = None;
    for r in &recs[..recs.len() - 1] {
        match r.typ {
            kc::T_EOM => return None,
            kc::T_NEXT_PROTO => {
                if protos.is_some() {
                    return None;
                }
                protos = Some(r.ids()?);
            }
            kc::T_AEAD => {
                if aeads.is_some() {
                    return None;
                }
                aeads = Some(r.ids()?);
            }
            kc::T_ERROR | kc::T_WARNING | kc::T_COOKIE | kc::T_SUP_PROTO | kc::T_SUP_ALG | kc::T_FIXED_KEY | kc::T_AUTH => return None,
            kc::T_SERVER | kc::T_DENY => {
                std::str::from_utf8(&r.body).ok()?;
            }
            kc::T_PORT => {
                if r.body.len() != 2 {
                    return None;
                }
            }
            kc::T_KEEPALIVE => {}
            _ => {
                if r.critical {
                    return None;
                }
            }
        }
    }
    Some((protos?, aeads?))
}

fn run(c: &mut Case) {
    if let Err(e) = ke::pki() {
        c.harness_error(e);
        return;
    }
    match c.rng.below(10) {
        0..=2 => scenario_pair(c),
        3..=6 => scenario_server(c),
        _ => scenario_client(c),
    }
}

// =======================================================================================
// observe what a real client offers (scripted server that only listens and refuses)

struct Offer {
    protocols: Vec<u16>,
    algorithms: Vec<u16>,
    recs: Vec<Rec>,
}

fn observe_offer(c: &mut Case, mode: ProtocolVersion) -> Option<Offer> {
    let client = match ke::real_client(mode) {
        Ok(x) => x,
        Err(e) => {
            c.harness_error(e);
            return None;
        }
    };
    let acc = match ke::scripted_server_acceptor() {
        Ok(x) => x,
        Err(e) => {
            c.harness_error(e);
            return None;
        }
    };
    let out = guard(|| {
        ke::run_virtual(async {
            let (cio, sio) = ke::duplex(65536);
            let cl = async { client.exchange_keys(cio, ke::SERVER_NAME.to_string(), Vec::<Cow<'_, str>>::new()).await.map(result_parts) };
            let sv = async {
                let mut tls = ke::scripted_accept(&acc, sio).await?;
                let req = ke::read_message(&mut tls, 65536).await;
                let resp = kc::encode(&[Rec::u16s(kc::T_ERROR, true, &[kc::ERR_INTERNAL]), Rec::eom()]);
                let _ = tls.write_all(&resp).await;
                let _ = tls.shutdown().await;
                Ok::<_, String>(req)
            };
            tokio::join!(cl, sv)
        })
    });
    match out {
        Ok(Ok((_, Ok(req)))) if req.complete => {
            let total = req.bytes;
            match wellformed_ke_request(&req.recs, total) {
                Some((protocols, algorithms)) => Some(Offer { protocols, algorithms, recs: req.recs }),
                None => {
                    // the statement says nothing about what a client sends; nothing to compare against
                    c.inc("client_request_not_wellformed");
                    None
                }
            }
        }
        Ok(Ok((_, Ok(_)))) => {
            c.inc("client_request_incomplete");
            None
        }
        Ok(Ok((_, Err(e)))) => {
            c.harness_error(format!("observe_offer: {e}"));
            None
        }
        Ok(Err(e)) => {
            c.harness_error(format!("observe_offer: {e}"));
            None
        }
        Err(p) => {
            c.harness_error(format!("observe_offer: panic at {}: {}", p.location, p.message));
            None
        }
    }
}

// =======================================================================================
// scenario pair: real client <-> real server

fn scenario_pair(c: &mut Case) {
    let mode = any_mode(c);
    let accepted = any_accepted(c);
    let rotations = c.rng.usize(0, 3);
    let Some(offer) = observe_offer(c, mode) else { return };
    let accepted_ids = ke::version_list_ids(&accepted);
    let want_p = first_in(&offer.protocols, &accepted_ids);
    let want_a = first_in(&offer.algorithms, SUPPORTED_AEAD);

    let (client, server) = match (ke::real_client(mode), ke::real_server(accepted.clone(), vec![], None, None)) {
        (Ok(a), Ok(b)) => (a, b),
        (a, b) => {
            c.harness_error(format!("pair setup: {:?} {:?}", a.err(), b.err()));
            return;
        }
    };
    let keyset = ke::keyset(c.rng.usize(0, 2), rotations);
    let buf = *c.rng.pick(&[512usize, 2048, 65536]);
    let det = |extra: Value| {
        json!({
            "scenario": "pair", "client_mode": mode_name(&mode), "server_accepted_versions": versions_json(&accepted),
            "client_offered_protocols": offer.protocols, "client_offered_algorithms": offer.algorithms,
            "expected_protocol": want_p, "expected_algorithm": want_a, "observed": extra,
        })
    };
    let out = guard(|| {
        ke::run_virtual(async {
            let (cio, sio) = ke::duplex(buf);
            let cl = async { client.exchange_keys(cio, ke::SERVER_NAME.to_string(), Vec::<Cow<'_, str>>::new()).await.map(result_parts) };
            let sv = async { server.handle_connection(sio, &keyset, || None::<()>).await.map(|h| h.is_some()) };
            tokio::join!(cl, sv)
        })
    });
    let (cres, sres) = match out {
        Ok(Ok(x)) => x,
        Ok(Err(e)) => {
            c.harness_error(format!("pair: {e}"));
            return;
        }
        Err(p) => {
            // not a "never panics" property: report as harness-visible event only
            c.inc("panic_seen");
            c.harness_error(format!("pair: panic at {}: {}", p.location, p.message));
            return;
        }
    };
    let sres_s = match &sres {
        Ok(k) => format!("Ok(kept_open={k})"),
        Err(e) => format!("Err({})", nts_error_kind(e)),
    };
    match cres {
        Ok(parts) => {
            c.inc("pair_exchanges_judged");
            c.inc("pair_client_ok");
            let got_p = proto_of_version(parts.version);
            let got_a = if parts.c2s.len() == parts.s2c.len() { aead_of_keylen(parts.c2s.len()) } else { None };
            c.sig_of(&("pair", mode_name(&mode), format!("{accepted:?}"), got_p, got_a, parts.cookies.len()));
            let obs = json!({"client_result": parts_json(&parts), "server_result": sres_s});
            if want_p.is_none() || want_a.is_none() {
                c.violation(
                    "pair/adopted-without-mutual-parameters",
                    "the exchange succeeded although the client's lists and the server's accepted set have no common protocol/algorithm",
                    det(obs.clone()),
                );
            }
            if let (Some(gp), Some(wp)) = (got_p, want_p) {
                if gp != wp {
                    let sig = if offer.protocols.contains(&gp) { "pair/not-first-acceptable-protocol" } else { "pair/client-adopted-unoffered-protocol" };
                    c.violation(sig, format!("client ended with protocol id {gp:#06x}, the first offered protocol the server accepts is {wp:#06x}"), det(obs.clone()));
                }
            }
            if got_p.is_none() {
                c.violation("pair/client-result-protocol-unidentified", "client result carries a protocol version that is neither final V4 nor V5", det(obs.clone()));
            }
            match (got_a, want_a) {
                (Some(ga), Some(wa)) if ga != wa => {
                    c.violation(
                        "pair/not-first-supported-algorithm",
                        format!("client holds keys of AEAD {ga}, the first offered algorithm the server supports is {wa}"),
                        det(obs.clone()),
                    );
                }
                (None, _) => c.violation("pair/client-key-length-unidentified", "client key lengths match no offered algorithm", det(obs.clone())),
                _ => {}
            }
            if parts.cookies.len() != 8 {
                c.violation("pair/cookie-count", format!("client received {} cookies from the real server, the server must issue eight", parts.cookies.len()), det(obs.clone()));
            }
            for (i, ck) in parts.cookies.iter().enumerate() {
                c.inc("server_cookies_decoded");
                match decode_cookie(&keyset, ck) {
                    None => {
                        c.violation("pair/cookie-undecodable", format!("cookie {i} does not decode with the server key set"), det(json!({"cookie_hex": hex(ck), "more": obs.clone()})));
                        break;
                    }
                    Some((alg, c2s, s2c)) => {
                        if c2s != parts.c2s || s2c != parts.s2c || Some(alg) != got_a {
                            c.violation(
                                "pair/cookie-keys-differ-from-client-keys",
                                format!("cookie {i} decodes to keys/algorithm different from what the client obtained"),
                                det(json!({"cookie_alg": alg, "cookie_c2s_hex": hex(&c2s), "cookie_s2c_hex": hex(&s2c), "more": obs.clone()})),
                            );
                            break;
                        }
                    }
                }
            }
            if c.idx % 50 == 0 {
                c.sample(|| det(obs.clone()));
            }
        }
        Err(e) => {
            let kind = nts_error_kind(&e);
            c.sig_of(&("pair-err", mode_name(&mode), format!("{accepted:?}"), kind));
            if matches!(e, NtsError::Tls(_) | NtsError::IO(_) | NtsError::Dns(_)) && want_p.is_some() && want_a.is_some() {
                c.harness_error(format!("pair: transport failure {e} (server: {sres_s})"));
                return;
            }
            c.inc("pair_exchanges_judged");
            c.inc("pair_client_refused");
            if want_p.is_some() && want_a.is_some() {
                c.violation(
                    "pair/no-selection-despite-overlap",
                    format!("client and server share a protocol and an algorithm but the exchange failed: client {kind} ({e}), server {sres_s}"),
                    det(json!({"client_error": e.to_string(), "server_result": sres_s})),
                );
            }
        }
    }
}

// =======================================================================================
// scenario server: scripted client -> real server

fn id_list(c: &mut Case, proto: bool) -> Vec<u16> {
    let n = match c.rng.below(10) {
        0 => 0,
        1..=3 => 1,
        4..=6 => 2,
        _ => c.rng.usize(3, 6),
    };
    let mut v: Vec<u16> = (0..n)
        .map(|_| {
            // ids the server might know are favoured so that most requests have something to select
            if c.rng.chance(2, 5) {
                *c.rng.pick(if proto { &[kc::PROTO_NTPV4, kc::PROTO_NTPV5] } else { &[kc::AEAD_SIV_256, kc::AEAD_SIV_512] })
            } else if proto {
                kc::any_proto(&mut c.rng)
            } else {
                kc::any_aead(&mut c.rng)
            }
        })
        .collect();
    if n >= 2 && c.rng.chance(1, 4) {
        // duplicates
        let i = c.rng.usize(0, n - 1);
        let j = c.rng.usize(0, n - 1);
        v[j] = v[i];
    }
    v
}

fn scenario_server(c: &mut Case) {
    let accepted = any_accepted(c);
    let accepted_ids = ke::version_list_ids(&accepted);
    let protos = id_list(c, true);
    let aeads = id_list(c, false);
    let mut recs = kc::ke_request(&protos, &aeads);
    // ignorable extras
    if c.rng.chance(1, 3) {
        let n = c.rng.usize(1, 3);
        for _ in 0..n {
            let at = c.rng.usize(0, recs.len());
            let rec = match c.rng.below(5) {
                0 => Rec::new(kc::T_DENY, false, kc::some_string(&mut c.rng, 30)),
                1 => {
                    let l = c.rng.usize(0, 40);
                    kc::padding_record(&mut c.rng, l)
                }
                2 => Rec::new(kc::T_SERVER, c.rng.bool(), kc::some_string(&mut c.rng, 30)),
                3 => Rec::u16s(kc::T_PORT, c.rng.bool(), &[c.rng.u16()]),
                _ => Rec::keepalive(),
            };
            recs.insert(at, rec);
        }
    }
    if c.rng.chance(1, 4) {
        c.rng.shuffle(&mut recs);
    }
    if c.rng.chance(1, 8) {
        // non-standard critical bits on the two negotiation records
        for r in recs.iter_mut() {
            if r.typ == kc::T_NEXT_PROTO || r.typ == kc::T_AEAD {
                r.critical = c.rng.bool();
            }
        }
    }
    recs.push(Rec::eom());
    let bytes = kc::encode(&recs);
    let cuts: Vec<usize> = if c.rng.chance(1, 3) {
        let n = c.rng.usize(1, 3);
        let mut v: Vec<usize> = (0..n).map(|_| c.rng.usize(1, bytes.len())).collect();
        v.sort();
        v
    } else {
        vec![]
    };
    let Some((l_p, l_a)) = wellformed_ke_request(&recs, bytes.len()) else {
        c.harness_error("scenario_server generated a request its own grammar rejects");
        return;
    };
    let want_p = first_in(&l_p, &accepted_ids);
    let want_a = first_in(&l_a, SUPPORTED_AEAD);

    let server_name = if c.rng.chance(1, 4) { Some("time.example".to_string()) } else { None };
    let server_port = if c.rng.chance(1, 4) { Some(c.rng.u16()) } else { None };
    let server = match ke::real_server(accepted.clone(), vec![], server_name, server_port) {
        Ok(s) => s,
        Err(e) => {
            c.harness_error(e);
            return;
        }
    };
    let conn = match ke::scripted_client_connector() {
        Ok(x) => x,
        Err(e) => {
            c.harness_error(e);
            return;
        }
    };
    let keyset = ke::keyset(c.rng.usize(0, 2), c.rng.usize(0, 3));
    let buf = *c.rng.pick(&[256usize, 2048, 65536]);
    let det = |extra: Value| {
        json!({
            "scenario": "server", "server_accepted_versions": versions_json(&accepted),
            "request_records": recs.iter().map(|r| r.to_json()).collect::<Vec<_>>(), "request_hex": hex(&bytes), "write_cuts": cuts,
            "client_protocol_list": l_p, "client_algorithm_list": l_a,
            "expected_protocol": want_p, "expected_algorithm": want_a, "observed": extra,
        })
    };

    struct Seen {
        resp: ke::MsgRead,
        after: ke::MsgRead,
        /// exporter keys computed by the harness for the pair named in the response
        keys_named: Option<ke::Keys>,
        named: (Option<Vec<u16>>, Option<Vec<u16>>),
    }
    let out = guard(|| {
        ke::run_virtual(async {
            let (cio, sio) = ke::duplex(buf);
            let cl = async {
                let mut tls = ke::scripted_connect(&conn, cio).await?;
                ke::write_pieces(&mut tls, &bytes, &cuts).await?;
                let resp = ke::read_message(&mut tls, 1 << 17).await;
                let named = (
                    resp.first(kc::T_NEXT_PROTO).and_then(|r| r.ids()),
                    resp.first(kc::T_AEAD).and_then(|r| r.ids()),
                );
                let keys_named = match (&named.0, &named.1) {
                    (Some(p), Some(a)) if p.len() == 1 && a.len() == 1 => ke::export_pair(tls.get_ref().1, p[0], a[0])?,
                    _ => None,
                };
                let after = if resp.closed { ke::MsgRead { closed: true, ..Default::default() } } else { ke::read_message(&mut tls, 1 << 17).await };
                let _ = tls.shutdown().await;
                Ok::<_, String>(Seen { resp, after, keys_named, named })
            };
            let sv = async { server.handle_connection(sio, &keyset, || None::<()>).await.map(|h| h.is_some()) };
            tokio::join!(cl, sv)
        })
    });
    let (seen, sres) = match out {
        Ok(Ok((Ok(s), r))) => (s, r),
        Ok(Ok((Err(e), _))) => {
            c.harness_error(format!("server scenario: {e}"));
            return;
        }
        Ok(Err(e)) => {
            c.harness_error(format!("server scenario: {e}"));
            return;
        }
        Err(p) => {
            c.inc("panic_seen");
            c.harness_error(format!("server scenario: panic at {}: {}", p.location, p.message));
            return;
        }
    };
    let sres_s = match &sres {
        Ok(k) => format!("Ok(kept_open={k})"),
        Err(e) => format!("Err({})", nts_error_kind(e)),
    };
    let resp = &seen.resp;
    let n_cookies = resp.count(kc::T_COOKIE);
    let obs = json!({"response": resp.to_json(), "server_result": sres_s, "named_protocols": seen.named.0, "named_algorithms": seen.named.1});
    c.inc("server_selections_judged");
    c.sig_of(&(
        "server",
        format!("{accepted:?}"),
        l_p.iter().map(|p| match *p { kc::PROTO_NTPV4 => 0u8, kc::PROTO_NTPV5 => 1, _ => 2 }).collect::<Vec<_>>(),
        l_a.iter().map(|a| match *a { kc::AEAD_SIV_256 => 0u8, kc::AEAD_SIV_512 => 1, _ => 2 }).collect::<Vec<_>>(),
        n_cookies,
    ));

    match (want_p, want_a) {
        (Some(wp), Some(wa)) => {
            c.inc("server_must_select");
            // the server must name exactly (wp, wa) and issue eight cookies for that pair
            let named_p = seen.named.0.clone().unwrap_or_default();
            let named_a = seen.named.1.clone().unwrap_or_default();
            if !resp.complete || resp.count(kc::T_NEXT_PROTO) != 1 || resp.count(kc::T_AEAD) != 1 || resp.count(kc::T_ERROR) != 0 {
                c.violation(
                    "server/no-selection-despite-overlap",
                    "a well-formed request with a protocol the server accepts and an algorithm it supports did not get a selection",
                    det(obs.clone()),
                );
                return;
            }
            if named_p != [wp] {
                let sig = if named_p.len() == 1 && accepted_ids.contains(&named_p[0]) && l_p.contains(&named_p[0]) {
                    "server/not-first-acceptable-protocol"
                } else {
                    "server/selected-protocol-not-mutual"
                };
                c.violation(sig, format!("server named protocol(s) {named_p:x?}; the first protocol in the client's list that it accepts is {wp:#06x}"), det(obs.clone()));
            }
            if named_a != [wa] {
                let sig = if named_a.len() == 1 && SUPPORTED_AEAD.contains(&named_a[0]) && l_a.contains(&named_a[0]) {
                    "server/not-first-supported-algorithm"
                } else {
                    "server/selected-algorithm-not-mutual"
                };
                c.violation(sig, format!("server named algorithm(s) {named_a:?}; the first algorithm in the client's list that it supports is {wa}"), det(obs.clone()));
            }
            if n_cookies != 8 {
                c.violation("server/cookie-count", format!("server issued {n_cookies} cookies, the statement requires eight"), det(obs.clone()));
            }
            // cookies must decode to the exporter keys of the pair that had to be selected
            let tls_keys = if named_p == [wp] && named_a == [wa] { seen.keys_named.clone() } else { None };
            if let Some(k) = tls_keys {
                for (i, r) in resp.recs.iter().filter(|r| r.typ == kc::T_COOKIE).enumerate() {
                    c.inc("server_cookies_decoded");
                    match decode_cookie(&keyset, &r.body) {
                        None => {
                            c.violation("server/cookie-undecodable", format!("cookie {i} does not decode with the server key set"), det(json!({"cookie_hex": hex(&r.body), "more": obs.clone()})));
                            break;
                        }
                        Some((alg, c2s, s2c)) => {
                            if alg != wa || c2s != k.c2s || s2c != k.s2c {
                                c.violation(
                                    "server/cookie-keys-differ-from-exporter",
                                    format!("cookie {i} decodes to keys/algorithm different from the TLS exporter output for protocol {wp:#06x}, algorithm {wa}"),
                                    det(json!({
                                        "cookie_alg": alg, "cookie_c2s_hex": hex(&c2s), "cookie_s2c_hex": hex(&s2c),
                                        "exporter_c2s_hex": hex(&k.c2s), "exporter_s2c_hex": hex(&k.s2c), "more": obs.clone(),
                                    })),
                                );
                                break;
                            }
                        }
                    }
                }
            }
            if c.idx % 50 == 1 {
                c.sample(|| det(obs.clone()));
            }
        }
        _ => {
            c.inc("server_nothing_to_select");
            // nothing mutual: the server cannot have "selected the first ... it accepts";
            // issuing cookies means it selected something outside the client's list / its own set
            if n_cookies > 0 {
                c.violation(
                    "server/cookies-without-mutual-parameters",
                    format!("server issued {n_cookies} cookies although no protocol/algorithm of the client's lists is accepted/supported"),
                    det(obs.clone()),
                );
            }
        }
    }
    let _ = seen.after;
}

// =======================================================================================
// scenario client: real client -> scripted server

fn scenario_client(c: &mut Case) {
    let mode = any_mode(c);
    let client = match ke::real_client(mode) {
        Ok(x) => x,
        Err(e) => {
            c.harness_error(e);
            return;
        }
    };
    let acc = match ke::scripted_server_acceptor() {
        Ok(x) => x,
        Err(e) => {
            c.harness_error(e);
            return;
        }
    };
    // the response plan is drawn before the request is seen; "offered" choices are resolved
    // against the observed request inside the conversation
    #[derive(Clone, Copy, Debug, PartialEq, Eq, Hash)]
    enum Pick {
        Offered(usize),
        OtherKnown,
        Unknown(u16),
    }
    let p_pick = match c.rng.below(10) {
        0..=3 => Pick::Offered(c.rng.usize(0, 3)),
        4..=7 => Pick::OtherKnown,
        _ => Pick::Unknown(*c.rng.pick(&[1u16, 0x8000, 0x8002, 0x0100, 0xffff, 4, 5])),
    };
    let a_pick = match c.rng.below(10) {
        0..=6 => Pick::Offered(c.rng.usize(0, 3)),
        7 => Pick::OtherKnown,
        _ => Pick::Unknown(*c.rng.pick(&[16u16, 0, 1, 14, 18, 30, 0xffff])),
    };
    let n_cookies = match c.rng.below(6) {
        0 => 0,
        1 => 8,
        _ => c.rng.usize(1, 12),
    };
    let cookies: Vec<Vec<u8>> = (0..n_cookies)
        .map(|_| {
            let l = *c.rng.pick(&[104usize, 168, 1, 40, 200]);
            c.rng.bytes(l)
        })
        .collect();
    let server_rec = if c.rng.chance(1, 3) { Some(kc::some_string(&mut c.rng, 30)) } else { None };
    let port_rec = if c.rng.chance(1, 3) { Some(c.rng.u16()) } else { None };
    let shape = c.rng.below(12); // 0: two protocol ids, 1: two algorithm ids, 2: warning, 3: duplicate AEAD record; else well-formed
    let pad = if c.rng.chance(1, 4) { Some(c.rng.usize(0, 30)) } else { None };
    let shuffle = c.rng.chance(1, 5);
    let mut plan_rng = c.rng.fork();
    let buf = *c.rng.pick(&[512usize, 2048, 65536]);

    struct Seen {
        req: ke::MsgRead,
        offer: Option<(Vec<u16>, Vec<u16>)>,
        resp_recs: Vec<Rec>,
        named: Option<(u16, u16)>,
        wellformed_response: bool,
        keys_named: Option<ke::Keys>,
    }
    let out = guard(|| {
        ke::run_virtual(async {
            let (cio, sio) = ke::duplex(buf);
            let cl = async { client.exchange_keys(cio, ke::SERVER_NAME.to_string(), Vec::<Cow<'_, str>>::new()).await.map(result_parts) };
            let sv = async {
                let mut tls = ke::scripted_accept(&acc, sio).await?;
                let req = ke::read_message(&mut tls, 65536).await;
                let offer = if req.complete { wellformed_ke_request(&req.recs, req.bytes) } else { None };
                let (l_p, l_a) = offer.clone().unwrap_or_default();
                let resolve = |pick: Pick, offered: &[u16], known: &[u16]| -> u16 {
                    match pick {
                        Pick::Offered(i) if !offered.is_empty() => offered[i % offered.len()],
                        Pick::Offered(_) => known[0],
                        Pick::OtherKnown => known.iter().copied().find(|k| !offered.contains(k)).unwrap_or(offered.first().copied().unwrap_or(known[0])),
                        Pick::Unknown(v) => v,
                    }
                };
                let p = resolve(p_pick, &l_p, &[kc::PROTO_NTPV4, kc::PROTO_NTPV5]);
                let a = resolve(a_pick, &l_a, &[kc::AEAD_SIV_256, kc::AEAD_SIV_512]);
                let mut recs = kc::ke_response(p, a, &cookies, server_rec.as_deref(), port_rec);
                let mut wellformed = true;
                match shape {
                    0 => {
                        recs[0] = Rec::u16s(kc::T_NEXT_PROTO, true, &[p, kc::PROTO_NTPV4]);
                        wellformed = false;
                    }
                    1 => {
                        recs[1] = Rec::u16s(kc::T_AEAD, true, &[a, kc::AEAD_SIV_256]);
                        wellformed = false;
                    }
                    2 => {
                        recs.insert(2, Rec::u16s(kc::T_WARNING, true, &[7]));
                        wellformed = false;
                    }
                    3 => {
                        recs.push(Rec::u16s(kc::T_AEAD, true, &[kc::AEAD_SIV_256]));
                        wellformed = false;
                    }
                    _ => {}
                }
                if let Some(n) = pad {
                    let at = plan_rng.usize(0, recs.len());
                    recs.insert(at, kc::padding_record(&mut plan_rng, n));
                }
                if shuffle {
                    plan_rng.shuffle(&mut recs);
                }
                recs.push(Rec::eom());
                let keys_named = ke::export_pair(tls.get_ref().1, p, a)?;
                let bytes = kc::encode(&recs);
                let _ = tls.write_all(&bytes).await;
                let _ = tls.flush().await;
                let _ = tls.shutdown().await;
                Ok::<_, String>(Seen { req, offer, resp_recs: recs, named: Some((p, a)), wellformed_response: wellformed, keys_named })
            };
            tokio::join!(cl, sv)
        })
    });
    let (cres, seen) = match out {
        Ok(Ok((cres, Ok(seen)))) => (cres, seen),
        Ok(Ok((cres, Err(e)))) => {
            c.harness_error(format!("client scenario: {e} (client: {:?})", cres.as_ref().map(|_| "ok").map_err(|e| e.to_string())));
            return;
        }
        Ok(Err(e)) => {
            c.harness_error(format!("client scenario: {e}"));
            return;
        }
        Err(p) => {
            c.inc("panic_seen");
            c.harness_error(format!("client scenario: panic at {}: {}", p.location, p.message));
            return;
        }
    };
    let Some((l_p, l_a)) = seen.offer.clone() else {
        // statement is about what the client *offered*: without a decodable offer there is no reference
        c.inc("client_request_not_wellformed");
        return;
    };
    let (p_named, a_named) = seen.named.unwrap_or((0, 0));
    let resp_hex = {
        let b = kc::encode(&seen.resp_recs);
        if b.len() <= 400 { hex(&b) } else { format!("{}...({} bytes)", hex(&b[..400]), b.len()) }
    };
    let det = |extra: Value| {
        json!({
            "scenario": "client", "client_mode": mode_name(&mode),
            "client_request_records": seen.req.recs.iter().map(|r| r.to_json()).collect::<Vec<_>>(),
            "client_offered_protocols": l_p, "client_offered_algorithms": l_a,
            "scripted_response_records": seen.resp_recs.iter().map(|r| if r.typ == kc::T_COOKIE { json!({"type": 5, "body_len": r.body.len()}) } else { r.to_json() }).collect::<Vec<_>>(),
            "scripted_response_hex": resp_hex,
            "response_named_protocol": p_named, "response_named_algorithm": a_named,
            "observed": extra,
        })
    };
    if !l_p.contains(&p_named) {
        c.inc("response_named_unoffered_protocol");
    }
    if !SUPPORTED_AEAD.contains(&a_named) {
        c.inc("response_named_unknown_algorithm");
    }
    match cres {
        Err(e) => {
            // nothing adopted: the statement is satisfied whatever the response was
            c.inc("client_refusals_seen");
            c.sig_of(&("client-err", mode_name(&mode), p_pick, a_pick, nts_error_kind(&e), n_cookies.min(9), shape.min(4)));
        }
        Ok(parts) => {
            c.inc("client_adoptions_judged");
            let got_p = proto_of_version(parts.version);
            let got_a = if parts.c2s.len() == parts.s2c.len() { aead_of_keylen(parts.c2s.len()) } else { None };
            c.sig_of(&("client-ok", mode_name(&mode), p_pick, a_pick, got_p, got_a, parts.cookies.len(), shape.min(4)));
            let obs = json!({"client_result": parts_json(&parts)});
            match got_p {
                None => c.violation("client/result-protocol-unidentified", "client result carries a protocol version that is neither final V4 nor V5", det(obs.clone())),
                Some(gp) => {
                    if !l_p.contains(&gp) {
                        c.violation(
                            "client/adopted-unoffered-protocol",
                            format!(
                                "client in mode {} offered protocols {:x?} but adopted protocol id {gp:#06x} (NTPv{}) named by the server",
                                mode_name(&mode),
                                l_p,
                                parts.version
                            ),
                            det(obs.clone()),
                        );
                    }
                    if seen.wellformed_response && gp != p_named {
                        c.violation("client/adopted-protocol-not-the-named-one", format!("server named protocol {p_named:#06x}, client adopted {gp:#06x}"), det(obs.clone()));
                    }
                }
            }
            match got_a {
                None => c.violation("client/key-length-unidentified", "client key lengths match no AEAD algorithm it offered", det(obs.clone())),
                Some(ga) => {
                    if !l_a.contains(&ga) {
                        c.violation("client/adopted-unoffered-algorithm", format!("client offered algorithms {l_a:?} but holds keys of AEAD {ga}"), det(obs.clone()));
                    }
                    if seen.wellformed_response && ga != a_named {
                        c.violation("client/adopted-algorithm-not-the-named-one", format!("server named algorithm {a_named}, client holds keys of AEAD {ga}"), det(obs.clone()));
                    }
                }
            }
            if seen.wellformed_response {
                // same keys as the server: the scripted server's keys are the exporter output for the pair it named
                match &seen.keys_named {
                    Some(k) => {
                        c.inc("client_keys_compared");
                        if k.c2s != parts.c2s || k.s2c != parts.s2c {
                            c.violation(
                                "client/keys-differ-from-exporter",
                                format!("client keys differ from the TLS exporter output (server side) for protocol {p_named:#06x}, algorithm {a_named}"),
                                det(json!({"exporter_c2s_hex": hex(&k.c2s), "exporter_s2c_hex": hex(&k.s2c), "more": obs.clone()})),
                            );
                        }
                    }
                    None => {
                        // the named algorithm has no key length known to the harness; adoption was flagged above
                    }
                }
            }
            if c.idx % 40 == 2 {
                c.sample(|| det(obs.clone()));
            }
        }
    }
}
