//! C03 — the clock is only steered on a majority consensus of usable sources.
//!
//! Events: clock-changing calls (`step_clock`, `set_frequency`) of a recording clock
//! during each `source_message` update of the REAL `KalmanClockController`, the
//! `used_sources` it reports, and (second observation point) the set returned by
//! the private selection step called directly.
//! Workload: synthetic per-source snapshots (mode b of E-CLK) whose confidence
//! intervals are exact dyadic numbers, so the monitor knows every interval exactly.
//! Oracle: the monitor's own O(n^2) closed-interval intersection count over the
//! voters (usable, synchronised, non-periodic, acceptable uncertainty).

use crate::common::selsim::{self, ClockCall, Rig, Syn, UpdateObs, Weights, UNIT};
use crate::core::{guard, Case, Profiles, Prop, Tier};
use ntp_proto::verif::kalman::a2 as hook;
use serde_json::{json, Value};

pub static PROP: Prop = Prop {
    id: "C03",
    level: "exploration",
    rule: "case = one configuration (minimum-agreeing-sources 0..5, dyadic range weights, maximum source uncertainty) and 0..10 \
           synthetic sources (centre, sigma, delay on a 2^-12 s grid; usable / unsynchronised / periodic / too-uncertain / removed decoys) \
           built either structurally (cluster around a point with chosen size vs. total voters: k of 2k, k+1 of 2k+1, below minimum; touching \
           endpoints; decoys inside the cluster that would tip the vote if counted) or at random on a small grid; the snapshots are injected \
           into the real controller either one by one (growing candidate set) or silently while unusable followed by one trigger update; the case \
           ends at the first clock-changing call. Every update and every direct call of the selection step is judged. Non-trivial = an update or \
           selection with at least one candidate; distinct = (voters, maximum closed overlap, minimum, majority?, touching decisive?, decoy kinds, \
           steered?) signatures.",
    assumptions: &[
        "intervals are injected as synthetic source messages through a guarded hook (real source filters are not in the loop)",
        "equal timestamps: the controller does not extrapolate the injected states",
        "a source whose radius equals the configured maximum exactly is judged under both readings (ambiguous in the statement)",
    ],
    profiles: Profiles::Strict,
    cases: |t| t.pick(1_000_000, 20_000_000),
    budget_s: |t| t.pick(40, 400),
    run,
    min_nontrivial: 300,
    required_counters: &[
        "update_steered",
        "update_not_steered",
        "used_sources_checked",
        "boundary_k_of_2k",
        "boundary_k1_of_2k1",
        "touching_decisive",
        "decoy_would_tip",
        "select_direct_calls",
    ],
    exhaustive: false,
    crash_is_violation: false,
};

/// Monitor-side analysis of one candidate set.
#[derive(Debug, Clone, Default)]
struct Analysis {
    /// voters when radius == max counts as acceptable / when it does not
    n_voters: [usize; 2],
    /// maximum number of voters whose closed intervals share a point
    max_overlap: [usize; 2],
    /// same with open intervals (touching does not count), lenient reading only
    max_overlap_open: usize,
    consensus: [bool; 2],
    /// consensus would exist if decoys (unsynchronised/periodic/too uncertain/unusable) were counted
    decoys_would_tip: bool,
}

fn interval_q(s: &Syn, w: &Weights) -> (i64, i64) {
    let r = s.radius_q(w);
    (4 * s.center - r, 4 * s.center + r)
}

fn max_overlap(iv: &[(i64, i64)], closed: bool) -> usize {
    let mut best = 0;
    for (i, a) in iv.iter().enumerate() {
        // closed: the maximum is attained at some left endpoint. open: test a point just right of a
        // left endpoint, i.e. count intervals with lo <= a.lo < hi (degenerate intervals are empty).
        let p = a.0;
        let n = iv
            .iter()
            .filter(|b| if closed { b.0 <= p && p <= b.1 } else { b.0 <= p && p < b.1 })
            .count();
        best = best.max(n);
    }
    best
}

/// `cands`: registered sources with a snapshot; `usable` decides whether they are candidates.
fn analyse(all: &[&Syn], w: &Weights, m: usize) -> Analysis {
    let mut a = Analysis::default();
    for (k, eq_ok) in [true, false].into_iter().enumerate() {
        let iv: Vec<(i64, i64)> = all
            .iter()
            .filter(|s| s.usable && s.leap != 4 && s.period.is_none())
            .filter(|s| {
                let r = s.radius_q(w);
                r < w.max_q || (eq_ok && r == w.max_q)
            })
            .map(|s| interval_q(s, w))
            .collect();
        a.n_voters[k] = iv.len();
        a.max_overlap[k] = max_overlap(&iv, true);
        if k == 0 {
            a.max_overlap_open = max_overlap(&iv, false);
        }
        a.consensus[k] = a.max_overlap[k] >= 1 && a.max_overlap[k] >= m && 2 * a.max_overlap[k] > iv.len();
    }
    // what a careless implementation would see: everybody with a snapshot votes
    let iv_all: Vec<(i64, i64)> = all.iter().map(|s| interval_q(s, w)).collect();
    let mo = max_overlap(&iv_all, true);
    a.decoys_would_tip = !a.consensus[0] && mo >= 1 && mo >= m && 2 * mo > iv_all.len();
    a
}

fn mk_radius(c: &mut Case, w: &Weights, lo: i64, hi: i64) -> Option<(i64, i64)> {
    // sigma >= 1 always (a zero variance makes the combiner divide by zero: C06 territory, not C03)
    if w.stat_q == 0 && w.delay_q == 0 {
        return if lo <= 0 { Some((c.rng.range(1, 8), c.rng.range(0, 8))) } else { None };
    }
    for _ in 0..24 {
        let (mut sigma, mut delay);
        if w.stat_q == 0 {
            sigma = c.rng.range(1, 8);
            delay = c.rng.range(0, hi / w.delay_q);
        } else if w.delay_q == 0 {
            sigma = c.rng.range(1, (hi / w.stat_q).max(1));
            delay = c.rng.range(0, 8);
        } else if c.rng.bool() {
            sigma = c.rng.range(1, (hi / w.stat_q).max(1));
            let rem = (hi - sigma * w.stat_q).max(0);
            delay = c.rng.range(0, rem / w.delay_q);
        } else {
            delay = c.rng.range(0, ((hi - w.stat_q).max(0)) / w.delay_q);
            let rem = (hi - delay * w.delay_q).max(0);
            sigma = c.rng.range(1, (rem / w.stat_q).max(1));
        }
        // bias towards using the whole budget (hits `hi` exactly quite often)
        if c.rng.chance(1, 3) {
            let r = sigma * w.stat_q + delay * w.delay_q;
            if r < hi {
                if w.delay_q > 0 {
                    delay += (hi - r) / w.delay_q;
                } else {
                    sigma += (hi - r) / w.stat_q;
                }
            }
        }
        let r = sigma * w.stat_q + delay * w.delay_q;
        if r >= lo && r <= hi {
            return Some((sigma, delay));
        }
    }
    None
}

#[derive(Clone, Copy, PartialEq, Debug)]
enum Kind {
    Voter,
    Unusable,
    Unsync,
    TooUncertain,
    Periodic,
    AtMax,
}

/// a source whose interval contains the point `p` (UNITs); `touch`: only just (endpoint == p)
fn mk_source(c: &mut Case, w: &Weights, id: u64, kind: Kind, p: i64, spread: i64, touch: bool) -> Option<Syn> {
    let (lo, hi) = match kind {
        Kind::TooUncertain => (w.max_q + 1, w.max_q + 1 + 4 * spread.max(4)),
        Kind::AtMax => (w.max_q, w.max_q),
        _ => (0, (4 * spread).min(w.max_q - 1).max(0)),
    };
    let (sigma, delay) = mk_radius(c, w, lo, hi)?;
    let rq = sigma * w.stat_q + delay * w.delay_q;
    // displacement d (UNITs) of the centre from p with |4d| <= rq
    let dmax = rq / 4;
    let d = if touch && rq % 4 == 0 {
        if c.rng.bool() { dmax } else { -dmax }
    } else {
        c.rng.range(-dmax, dmax)
    };
    let leap = match kind {
        Kind::Unsync => 4,
        _ => *c.rng.pick(&[0u8, 0, 0, 1, 2, 3]),
    };
    let periodic = kind == Kind::Periodic;
    Some(Syn {
        id,
        center: p + d,
        sigma,
        delay,
        usable: kind != Kind::Unusable,
        leap,
        period: if periodic { Some(*c.rng.pick(&[1i64 << 12, 1 << 14, 1 << 16])) } else { None },
        freq: c.rng.range(1, 64),
        one_way: periodic || c.rng.chance(1, 8),
    })
}

fn kind_name(s: &Syn, w: &Weights) -> &'static str {
    if !s.usable {
        "unusable"
    } else if s.leap == 4 {
        "unsynchronised"
    } else if s.radius_q(w) > w.max_q {
        "too-uncertain"
    } else if s.period.is_some() {
        "periodic"
    } else if s.radius_q(w) == w.max_q {
        "at-maximum-uncertainty"
    } else {
        "voter"
    }
}

fn syn_json(s: &Syn, w: &Weights) -> Value {
    let (lo, hi) = interval_q(s, w);
    json!({
        "id": s.id, "kind": kind_name(s, w), "center_s": s.center as f64 * UNIT, "sigma_s": s.sigma as f64 * UNIT,
        "delay_s": s.delay as f64 * UNIT, "radius_s": s.radius_q(w) as f64 / 4.0 * UNIT,
        "interval_s": [lo as f64 / 4.0 * UNIT, hi as f64 / 4.0 * UNIT],
        "usable": s.usable, "leap": selsim::leap_name(s.leap), "period_s": s.period.map(|p| p as f64 * UNIT),
        "freq": s.freq as f64 / (1u64 << 30) as f64, "one_way": s.one_way,
    })
}

fn gen_scenario(c: &mut Case) -> (Weights, usize, Vec<Syn>, &'static str) {
    let w = loop {
        let w = Weights {
            stat_q: *c.rng.pick(&[0i64, 1, 2, 4, 8, 8, 8]),
            delay_q: *c.rng.pick(&[0i64, 1, 1, 2, 4]),
            max_q: *c.rng.pick(&[64i64, 256, 1024, 4096, 4096]),
        };
        if w.stat_q != 0 || w.delay_q != 0 || c.rng.chance(1, 20) {
            break w;
        }
    };
    let m = *c.rng.pick(&[0usize, 1, 1, 1, 2, 2, 3, 3, 4, 5]);
    let mut v: Vec<Syn> = Vec::new();
    let mut id = 1u64;
    let p = c.rng.range(-2000, 2000);
    let style = c.rng.below(10);
    let name;
    if style < 6 {
        // structured: main cluster of `a` voters around p, `rest` other voters elsewhere, decoys in the cluster
        name = "structured";
        let k = c.rng.range(1, 4) as usize;
        let (a, n) = match c.rng.below(6) {
            0 => (k, 2 * k),         // exactly half: no majority
            1 => (k + 1, 2 * k + 1), // smallest strict majority of an odd number
            2 => (k, 2 * k - 1),     // smallest strict majority
            3 => (k, 2 * k + 1),     // clearly no majority
            4 => (k + 1, 2 * k),     // majority of an even number
            _ => (k, k),             // unanimous (tests the minimum)
        };
        let touch_some = c.rng.chance(1, 3);
        for i in 0..a {
            let touch = touch_some && c.rng.bool();
            let kind = if c.rng.chance(1, 12) { Kind::AtMax } else { Kind::Voter };
            if let Some(s) = mk_source(c, &w, id, kind, p, 40, touch).or_else(|| mk_source(c, &w, id, Kind::Voter, p, 40, touch)) {
                v.push(s);
                id += 1;
            }
        }
        // the rest: singletons far away from each other, or a second cluster
        let second_cluster = c.rng.chance(1, 3);
        let q = p + if c.rng.bool() { 5000 } else { -5000 };
        for i in 0..(n - a) {
            let at = if second_cluster { q } else { p + (3000 + 2200 * i as i64) * if i % 2 == 0 { 1 } else { -1 } };
            if let Some(s) = mk_source(c, &w, id, Kind::Voter, at, 40, false) {
                v.push(s);
                id += 1;
            }
        }
        // decoys containing p
        let nd = *c.rng.pick(&[0usize, 0, 1, 1, 2, 3, 4]);
        for _ in 0..nd {
            let kind = *c.rng.pick(&[Kind::Unusable, Kind::Unsync, Kind::TooUncertain, Kind::Periodic]);
            let at = if c.rng.chance(1, 6) { q } else { p };
            if let Some(s) = mk_source(c, &w, id, kind, at, 40, false) {
                v.push(s);
                id += 1;
            }
        }
    } else if style < 8 {
        // chains of touching intervals: [x0,x1],[x1,x2],... share only endpoints
        name = "touching-chain";
        let n = c.rng.range(2, 6) as usize;
        let mut left = 4 * p; // quarter units
        for i in 0..n {
            // need a radius that is a multiple of 2 UNITs in quarter units => rq % 8 == 0 so the centre is on the grid
            let mut made = false;
            for _ in 0..16 {
                if let Some((sigma, delay)) = mk_radius(c, &w, 0, 160.min(w.max_q - 1).max(0)) {
                    let rq = sigma * w.stat_q + delay * w.delay_q;
                    if rq % 4 == 0 && (left + rq) % 4 == 0 {
                        let center_q = left + rq;
                        v.push(Syn {
                            id,
                            center: center_q / 4,
                            sigma,
                            delay,
                            usable: true,
                            leap: 0,
                            period: None,
                            freq: c.rng.range(1, 64),
                            one_way: false,
                        });
                        id += 1;
                        // next interval starts where this one ends, or (sometimes) overlaps/stacks
                        left = match c.rng.below(4) {
                            0 => left,            // same left end: stacked
                            _ => center_q + rq,   // touching
                        };
                        made = true;
                        break;
                    }
                }
            }
            if !made {
                break;
            }
        }
        if c.rng.bool() {
            let kind = *c.rng.pick(&[Kind::Unusable, Kind::Unsync, Kind::TooUncertain, Kind::Periodic]);
            if let Some(s) = mk_source(c, &w, id, kind, p, 40, false) {
                v.push(s);
                id += 1;
            }
        }
    } else {
        // random on a small grid: many coincidences
        name = "random-grid";
        let n = c.rng.range(0, 10) as usize;
        let span = *c.rng.pick(&[4i64, 16, 64, 400]);
        for _ in 0..n {
            let kind = *c.rng.pick(&[
                Kind::Voter, Kind::Voter, Kind::Voter, Kind::Voter, Kind::Voter, Kind::Unusable, Kind::Unsync, Kind::TooUncertain,
                Kind::Periodic, Kind::AtMax,
            ]);
            let at = p + c.rng.range(-span, span);
            let touch = c.rng.chance(1, 4);
            if let Some(s) = mk_source(c, &w, id, kind, at, span / 2 + 1, touch) {
                v.push(s);
                id += 1;
            }
        }
    }
    c.rng.shuffle(&mut v);
    (w, m, v, name)
}

#[derive(Clone, Copy)]
struct Shadow {
    registered: bool,
    has_snapshot: bool,
}

fn judge_update(
    c: &mut Case,
    w: &Weights,
    m: usize,
    srcs: &[Syn],
    shadow: &[Shadow],
    obs: &UpdateObs,
    style: &str,
    script: &[String],
) {
    let cands: Vec<&Syn> = srcs
        .iter()
        .zip(shadow.iter())
        .filter(|(_, sh)| sh.registered && sh.has_snapshot)
        .map(|(s, _)| s)
        .collect();
    let a = analyse(&cands, w, m);
    let steered = obs.clock_changed();
    let detail = |a: &Analysis| {
        json!({
            "style": style, "minimum_agreeing_sources": m,
            "range_statistical_weight": w.stat_q as f64 / 4.0, "range_delay_weight": w.delay_q as f64 / 4.0,
            "maximum_source_uncertainty_s": w.max_q as f64 / 4.0 * UNIT,
            "sources_with_snapshot": cands.iter().map(|s| syn_json(s, w)).collect::<Vec<_>>(),
            "script": script,
            "voters": a.n_voters[0], "max_closed_overlap": a.max_overlap[0],
            "clock_calls": format!("{:?}", obs.calls), "used_sources": obs.used,
        })
    };
    if !cands.is_empty() {
        let decoys: u32 = cands.iter().fold(0u32, |acc, s| {
            acc | match kind_name(s, w) {
                "unusable" => 1,
                "unsynchronised" => 2,
                "too-uncertain" => 4,
                "periodic" => 8,
                "at-maximum-uncertainty" => 16,
                _ => 0,
            }
        });
        c.sig_of(&(
            a.n_voters[0],
            a.max_overlap[0],
            m,
            a.consensus[0],
            a.max_overlap[0] != a.max_overlap_open,
            decoys,
            steered,
        ));
    }
    // coverage bookkeeping (on the lenient reading)
    let (n, mo) = (a.n_voters[0], a.max_overlap[0]);
    if n >= 2 && n % 2 == 0 && mo == n / 2 && mo >= m {
        c.inc("boundary_k_of_2k");
    }
    if n >= 1 && n % 2 == 1 && mo == (n + 1) / 2 && mo >= m {
        c.inc("boundary_k1_of_2k1");
    }
    if mo >= 1 && mo + 1 == m {
        c.inc("boundary_one_below_minimum");
    }
    if mo >= 1 && mo == m {
        c.inc("boundary_exactly_minimum");
    }
    // touching decisive: with open intervals the consensus would be lost
    if a.consensus[0] && !(a.max_overlap_open >= 1 && a.max_overlap_open >= m && 2 * a.max_overlap_open > n) {
        c.inc("touching_decisive");
        if steered {
            c.inc("touching_decisive_steered");
        }
    }
    if a.decoys_would_tip {
        c.inc("decoy_would_tip");
    }
    if a.consensus[0] != a.consensus[1] {
        c.inc("ambiguous_at_maximum_uncertainty");
    }

    if steered {
        c.inc("update_steered");
        // violation only if no reading of the statement admits a consensus
        if !a.consensus[0] && !a.consensus[1] {
            let class = if a.n_voters[0] == 0 {
                "no-voters"
            } else if a.max_overlap[0] < m {
                "below-minimum"
            } else {
                "no-majority"
            };
            c.violation(
                format!("C03/steer-without-consensus/{class}"),
                format!(
                    "clock changed ({:?}) although only {} of {} voters share a point (minimum {m})",
                    obs.calls.iter().filter(|x| x.changes_clock()).collect::<Vec<_>>(),
                    a.max_overlap[0],
                    a.n_voters[0]
                ),
                detail(&a),
            );
        }
    } else {
        c.inc("update_not_steered");
        if a.consensus[0] {
            c.inc("consensus_but_no_steer_not_judged");
            if a.consensus[1] && a.max_overlap_open >= 1 && a.max_overlap_open >= m && 2 * a.max_overlap_open > n {
                // consensus under every reading (even with open intervals) and still no steering:
                // not a violation (the statement only says "only when"), but worth knowing about
                c.inc("robust_consensus_but_no_steer_not_judged");
                if std::env::var("VERIF_DEBUG_C03").is_ok() {
                    eprintln!("{}", detail(&a));
                }
            }
        }
    }
    if let Some(used) = &obs.used {
        for u in used {
            c.inc("used_sources_checked");
            let src = srcs.iter().zip(shadow.iter()).find(|(s, _)| s.id == *u);
            let bad = match src {
                None => Some("unregistered"),
                Some((s, sh)) => {
                    if !sh.registered || !sh.has_snapshot {
                        Some("unregistered")
                    } else if !s.usable {
                        Some("unusable")
                    } else if s.leap == 4 {
                        Some("unsynchronised")
                    } else if s.radius_q(w) > w.max_q {
                        Some("too-uncertain")
                    } else {
                        None
                    }
                }
            };
            if let Some(b) = bad {
                c.violation(
                    format!("C03/used-ineligible/{b}"),
                    format!("source {u} is {b} but is reported among the sources used for the estimate"),
                    detail(&a),
                );
            }
        }
        if !used.is_empty() && !a.consensus[0] && !a.consensus[1] {
            // an estimate was formed without consensus; only a violation if it steered (judged above)
            c.inc("estimate_without_consensus");
        }
    }
}

fn judge_select(c: &mut Case, w: &Weights, m: usize, cands: &[Syn], selected: &[u64], style: &str) {
    let refs: Vec<&Syn> = cands.iter().collect();
    let a = analyse(&refs, w, m);
    c.inc("select_direct_calls");
    let detail = || {
        json!({
            "style": style, "minimum_agreeing_sources": m,
            "range_statistical_weight": w.stat_q as f64 / 4.0, "range_delay_weight": w.delay_q as f64 / 4.0,
            "maximum_source_uncertainty_s": w.max_q as f64 / 4.0 * UNIT,
            "candidates_in_order": cands.iter().map(|s| syn_json(s, w)).collect::<Vec<_>>(),
            "selected": selected, "voters": a.n_voters[0], "max_closed_overlap": a.max_overlap[0],
        })
    };
    if !selected.is_empty() {
        c.inc("select_direct_nonempty");
        if !a.consensus[0] && !a.consensus[1] {
            c.violation(
                "C03/select-direct/selection-without-consensus",
                format!(
                    "selection step returned {} sources although only {} of {} voters share a point (minimum {m})",
                    selected.len(),
                    a.max_overlap[0],
                    a.n_voters[0]
                ),
                detail(),
            );
        }
        for u in selected {
            let bad = match cands.iter().find(|s| s.id == *u) {
                None => Some("unregistered"),
                Some(s) if s.leap == 4 => Some("unsynchronised"),
                Some(s) if s.radius_q(w) > w.max_q => Some("too-uncertain"),
                _ => None,
            };
            if let Some(b) = bad {
                c.violation(
                    format!("C03/select-direct/selected-ineligible/{b}"),
                    format!("selection step returned source {u} which is {b}"),
                    detail(),
                );
            }
        }
    }
}

fn run(c: &mut Case) {
    let (w, m, mut srcs, style) = gen_scenario(c);
    let sync = selsim::sync_config(m);
    let algo = selsim::algo_config(&w);
    let time = (3_900_000_000u64 << 32) + c.rng.below(1 << 40);
    let mut rig = Rig::new(sync, algo, time);
    if c.rng.chance(1, 4) {
        rig.take_control();
    }
    let mut shadow: Vec<Shadow> = srcs.iter().map(|_| Shadow { registered: false, has_snapshot: false }).collect();
    let mut script: Vec<String> = Vec::new();
    let n = srcs.len();

    // direct calls of the selection step in two candidate orders (usable sources only are candidates)
    {
        let mut cands: Vec<Syn> = srcs.iter().filter(|s| s.usable).cloned().collect();
        for round in 0..2 {
            if round == 1 {
                cands.reverse();
                if c.rng.bool() {
                    c.rng.shuffle(&mut cands);
                }
            }
            let snaps: Vec<_> = cands.iter().map(|s| s.snap(time)).collect();
            match guard(|| hook::select_direct(&sync, &algo, &snaps)) {
                Ok(sel) => judge_select(c, &w, m, &cands, &sel, style),
                Err(p) => c.harness_error(format!("panic in select: {} {}", p.location, p.message)),
            }
        }
    }

    // register everything
    for (i, s) in srcs.iter().enumerate() {
        rig.add(s);
        shadow[i].registered = true;
        script.push(format!("add {}", s.id));
    }
    let staged = c.rng.chance(3, 10);
    let mut steered = false;
    let mut do_inject = |c: &mut Case, rig: &mut Rig, srcs: &[Syn], shadow: &mut Vec<Shadow>, script: &mut Vec<String>, i: usize| -> bool {
        script.push(format!("message {}", srcs[i].id));
        let r = guard(|| rig.inject(&srcs[i]));
        shadow[i].has_snapshot = shadow[i].registered;
        match r {
            Ok(obs) => {
                judge_update(c, &w, m, srcs, shadow, &obs, style, script);
                obs.clock_changed()
            }
            Err(p) => {
                if p.message.contains("Unsynchronized source selected") {
                    c.violation(
                        "C03/panic/unsynchronised-source-selected",
                        format!("an unsynchronised source passed selection and reached the combiner: {} at {}", p.message, p.location),
                        json!({"style": style, "script": script, "sources": srcs.iter().map(|s| syn_json(s, &w)).collect::<Vec<_>>() }),
                    );
                } else {
                    c.harness_error(format!("panic in source_message: {} {}", p.location, p.message));
                }
                true
            }
        }
    };
    if staged {
        // usable flags first, then one snapshot at a time: every update sees a larger candidate set
        for (i, s) in srcs.iter().enumerate() {
            if s.usable {
                rig.set_usable(s.id, true);
                script.push(format!("usable {} true", s.id));
            }
        }
        for i in 0..n {
            if do_inject(c, &mut rig, &srcs, &mut shadow, &mut script, i) {
                steered = true;
                break;
            }
        }
    } else {
        // silent load: all unusable while their snapshots arrive (every such update has no candidate at all)
        let intended: Vec<bool> = srcs.iter().map(|s| s.usable).collect();
        for s in srcs.iter_mut() {
            s.usable = false;
        }
        for i in 0..n {
            if do_inject(c, &mut rig, &srcs, &mut shadow, &mut script, i) {
                steered = true;
                break;
            }
        }
        if !steered && n > 0 {
            // occasionally remove one source again before the trigger
            if c.rng.chance(1, 6) {
                let i = c.rng.below(n as u64) as usize;
                rig.remove(srcs[i].id);
                shadow[i].registered = false;
                shadow[i].has_snapshot = false;
                script.push(format!("remove {}", srcs[i].id));
            }
            for (i, s) in srcs.iter_mut().enumerate() {
                if intended[i] {
                    s.usable = true;
                    rig.set_usable(s.id, true);
                    script.push(format!("usable {} true", s.id));
                }
            }
            // a usable source flipped back to unusable stays a decoy
            if c.rng.chance(1, 5) {
                let i = c.rng.below(n as u64) as usize;
                srcs[i].usable = false;
                rig.set_usable(srcs[i].id, false);
                script.push(format!("usable {} false", srcs[i].id));
            }
            // trigger: re-deliver the snapshot of one registered source
            let regs: Vec<usize> = (0..n).filter(|i| shadow[*i].registered).collect();
            if !regs.is_empty() {
                let i = *c.rng.pick(&regs);
                steered = do_inject(c, &mut rig, &srcs, &mut shadow, &mut script, i);
            }
        }
    }
    if c.wants_sample() && n > 2 {
        c.sample(|| json!({"style": style, "minimum": m, "sources": srcs.iter().map(|s| syn_json(s, &w)).collect::<Vec<_>>(), "script": script, "steered": steered}));
    }
}
