//! C27 — server cookie keys persist safely across restarts and crashes (level: fault_enumeration).
//!
//! Events: result of `KeySetProvider::load` on every faulted file state and the behaviour of the
//! loaded set (issue + decode a cookie, rotate, issue + decode again) under `catch_unwind`; the file
//! written by the real `ntpd` key-provider task (`nts_key_provider::spawn`) in a temp dir, its mode
//! bits, and what a second provider instance ("the daemon after the restart") makes of it.
//! Oracle:
//!  * crash during store (file = first k bytes of the new content): load gives exactly the stored
//!    set or an error (=> fresh keys);
//!  * truncated / corrupted file: load gives an error, or a set that issues, decodes and rotates
//!    without panicking; load itself must not panic (the daemon is built with panic=abort);
//!  * restart: a cookie issued before the restart decodes to the same keys after it; mode 0600.

use std::io::Write;
use std::os::unix::fs::PermissionsExt;

use crate::common::pktgen::{self, AEAD_256, AEAD_512, SessionKeys};
use crate::core::fork::{Ended, in_child};
use crate::core::{Case, Profiles, Prop, Tier, guard, hex, unhex};
use ntp_proto::KeySetProvider;
use ntp_proto::verif::pkt as hp;
use serde_json::{Value, json};

const IN_PROCESS_SHAPES: u64 = 16;
const FORKED_SHAPES: u64 = 8;

pub static PROP: Prop = Prop {
    id: "C27",
    level: "fault_enumeration",
    rule: "index space = 16 in-process shapes + 8 real-provider shapes per round (quick: 1 round, thorough: 12 rounds with \
           fresh key material). In-process shape = (number of keys n in 1..=4) x (key set after n-1, n, n+4 rotations of a \
           provider with history n-1, or a loaded set with id offset 2^32-2): for the file F written by the real store \
           (len = 20+64n) the case enumerates COMPLETELY: every crash prefix k=0..=len produced by the real store() on a \
           writer that fails after k bytes; every truncation F[..k]; every header field (time, id offset, primary, key \
           count) set to each of {0,1,n-1,n,n+1,2^31,2^32-1} (time also 2^63 and 2^64-1); every key byte with one bit \
           flipped. Real-provider shape = (n in 1..=4) x (restart without / with a rotation in between; crash enumeration): \
           ntpd's spawn() runs in a forked child on a temp dir; the crash enumeration bounds the file size with \
           RLIMIT_FSIZE=k while the real task stores a rotated set over an older file: EVERY k=0..=len for the 1-key file \
           (all sizes in the thorough tier), and k in {0..=21, each key boundary -1/0/+1, len-2..=len} for 2-4 keys in the quick tier. Distinct \
           non-trivial = distinct (shape, fault family, loader outcome) tuples.",
    assumptions: &[
        "crash model of the statement: after the truncating open the file holds a prefix of the new content; reordering below the file system is out of scope",
        "the write limit RLIMIT_FSIZE (EFBIG after k bytes) stands in for a crash of the daemon after k bytes reached the file",
        "equality of key sets is judged on the bytes written by the public store(), time field excluded",
        "exhaustive refers to the fault lists enumerated for each generated key set (crash points, truncations, header values, key bytes), not to all key material",
    ],
    profiles: Profiles::Both,
    cases: |t| (IN_PROCESS_SHAPES + FORKED_SHAPES) * t.pick(1, 12),
    budget_s: |t| t.pick(60, 600),
    run,
    min_nontrivial: 20,
    required_counters: &[
        "crash_prefix_states",
        "crash_prefix_full_loaded",
        "truncation_states",
        "header_corruption_states",
        "key_flip_states",
        "loaded_sets_exercised",
        "real_provider_restarts",
        "real_provider_mode_checks",
        "real_provider_crash_points",
        "real_provider_crash_enumerations_complete",
    ],
    exhaustive: true,
    crash_is_violation: false,
};

/// accepts `limit` bytes in total, then fails
struct FailingWriter {
    limit: usize,
    buf: Vec<u8>,
}

impl Write for FailingWriter {
    fn write(&mut self, b: &[u8]) -> std::io::Result<usize> {
        let room = self.limit - self.buf.len();
        if room == 0 && !b.is_empty() {
            return Err(std::io::Error::other("disk gone"));
        }
        let n = room.min(b.len());
        self.buf.extend_from_slice(&b[..n]);
        Ok(n)
    }
    fn flush(&mut self) -> std::io::Result<()> {
        Ok(())
    }
}

#[derive(Debug, PartialEq, Eq, Hash, Clone, Copy)]
enum Outcome {
    Rejected,
    LoadedSame,
    LoadedOther,
}

/// Issue + decode + rotate + issue + decode on a loaded provider; Err(site, message) if it panics,
/// Ok(false) if a fresh cookie does not decode to its keys.
fn exercise(c: &mut Case, p: &mut KeySetProvider) -> Result<bool, crate::core::PanicInfo> {
    let alg = if c.rng.bool() { AEAD_256 } else { AEAD_512 };
    let s = SessionKeys::random(&mut c.rng, alg);
    guard(|| {
        let mut ok = true;
        for round in 0..2 {
            let ks = p.get();
            let dc = hp::make_cookie(s.alg, &s.s2c, &s.c2s).expect("key sizes");
            let ck = hp::encode_cookie(&ks, &dc);
            ok &= hp::decode_cookie_parts(&ks, &ck) == Some((s.alg, s.s2c.clone(), s.c2s.clone()));
            if round == 0 {
                p.rotate();
            }
        }
        ok
    })
}

/// Load `bytes` with the real loader and classify. `expected_tail` = stored bytes (from offset 8) of the set
/// that was being stored. `must_match`: crash semantics (loaded set must be the stored one).
fn load_and_judge(c: &mut Case, family: &str, bytes: &[u8], expected_tail: &[u8], must_match: bool, history: usize, what: &dyn Fn() -> Value) -> Option<Outcome> {
    let prof = c.profile;
    let r = match guard(|| KeySetProvider::load(&mut &bytes[..], history)) {
        Ok(r) => r,
        Err(p) => {
            c.violation(
                format!("load-panic/{family}/{prof}/{}", p.site()),
                format!("KeySetProvider::load panicked at {} ({}); ntpd is built with panic=abort, so the daemon cannot start with this file", p.location, p.message),
                json!({"file_hex": hex(bytes), "fault": what()}),
            );
            return None;
        }
    };
    let Ok((mut provider, _time)) = r else { return Some(Outcome::Rejected) };
    let stored = pktgen::stored_bytes(&provider);
    let same = stored.len() >= 8 && &stored[8..] == expected_tail;
    if must_match && !same {
        c.violation(
            format!("crash-state-loads-other-set/{family}/{prof}"),
            "a file state left by a crash during store loads as a key set that is neither the stored one nor rejected",
            json!({"file_hex": hex(bytes), "fault": what(), "loaded_hex": hex(&stored[8..]), "stored_hex": hex(expected_tail)}),
        );
        return None;
    }
    c.inc("loaded_sets_exercised");
    match exercise(c, &mut provider) {
        Ok(true) => {}
        Ok(false) => {
            c.violation(
                format!("loaded-set-cannot-roundtrip/{family}/{prof}"),
                "a loaded key set issues a cookie it cannot decode",
                json!({"file_hex": hex(bytes), "fault": what()}),
            );
            return None;
        }
        Err(p) => {
            c.violation(
                format!("loaded-set-crashes/{family}/{prof}/{}", p.site()),
                format!("the loader accepted a file whose key set panics when used: {} at {}", p.message, p.location),
                json!({"file_hex": hex(bytes), "fault": what()}),
            );
            return None;
        }
    }
    Some(if same { Outcome::LoadedSame } else { Outcome::LoadedOther })
}

fn in_process_shape(c: &mut Case, shape: u64) {
    let n = (shape % 4) as usize + 1;
    let variant = shape / 4;
    let history = n - 1;
    // the set being stored
    let provider = if variant < 3 {
        let mut p = KeySetProvider::new(history);
        let rot = match variant {
            0 => n - 1,
            1 => n,
            _ => n + 4,
        };
        for _ in 0..rot {
            p.rotate();
        }
        p
    } else {
        let keys: Vec<Vec<u8>> = (0..n).map(|_| c.rng.bytes(64)).collect();
        match pktgen::ServerKeys::from_parts(keys, u32::MAX - 1, (n - 1) as u32, history) {
            Some(sk) => sk.provider,
            None => {
                c.harness_error("well-formed key file did not load");
                return;
            }
        }
    };
    let f = pktgen::stored_bytes(&provider);
    let len = f.len();
    if len != 20 + 64 * n {
        c.harness_error(format!("unexpected store size {len} for {n} keys"));
        return;
    }
    let tail = f[8..].to_vec();

    // (a) crash prefixes through the real store on a failing writer
    for k in 0..=len {
        let mut w = FailingWriter { limit: k, buf: Vec::new() };
        let r = match guard(|| provider.store(&mut w)) {
            Ok(r) => r,
            Err(p) => {
                c.violation(format!("store-panic/{}/{}", c.profile, p.site()), format!("store panicked when the writer failed after {k} bytes: {}", p.message), json!({"k": k}));
                return;
            }
        };
        if (k < len) != r.is_err() {
            c.harness_error(format!("failing writer: k={k} len={len} store result {:?}", r.is_ok()));
            return;
        }
        c.inc("crash_prefix_states");
        let state = w.buf;
        let Some(o) = load_and_judge(c, "crash-prefix", &state, &tail, true, history, &|| json!({"kind": "store interrupted", "bytes_written": k, "of": len})) else { return };
        if k == len {
            if o != Outcome::LoadedSame {
                c.violation(
                    format!("complete-store-not-restored/{}", c.profile),
                    "a completely stored key file does not load as the stored set",
                    json!({"file_hex": hex(&state)}),
                );
                return;
            }
            c.inc("crash_prefix_full_loaded");
        }
        c.sig_of(&(shape, "prefix", o, k.min(21), k == len));
    }
    // (b) every truncation (of the healthy file; statement: error or usable set)
    for k in 0..len {
        c.inc("truncation_states");
        let Some(o) = load_and_judge(c, "truncation", &f[..k], &tail, false, history, &|| json!({"kind": "truncated", "to": k, "of": len})) else { return };
        c.sig_of(&(shape, "trunc", o, k.min(21)));
    }
    // (c) header fields
    let n32 = n as u32;
    let vals32: [u32; 7] = [0, 1, n32.wrapping_sub(1), n32, n32 + 1, 1 << 31, u32::MAX];
    for (name, off) in [("id_offset", 8usize), ("primary", 12), ("len", 16)] {
        for v in vals32 {
            let mut g = f.clone();
            g[off..off + 4].copy_from_slice(&v.to_be_bytes());
            c.inc("header_corruption_states");
            let Some(o) = load_and_judge(c, &format!("header-{name}"), &g, &tail, false, history, &|| json!({"kind": "header field overwritten", "field": name, "value": v, "keys_in_file": n})) else { continue };
            c.sig_of(&(shape, name, o, v.min(6)));
        }
    }
    let vals64: [u64; 9] = [0, 1, n as u64 - 1, n as u64, n as u64 + 1, 1 << 31, u32::MAX as u64, 1 << 63, u64::MAX];
    for v in vals64 {
        let mut g = f.clone();
        g[0..8].copy_from_slice(&v.to_be_bytes());
        c.inc("header_corruption_states");
        let Some(o) = load_and_judge(c, "header-time", &g, &tail, false, history, &|| json!({"kind": "header field overwritten", "field": "time", "value": v.to_string()})) else { continue };
        c.sig_of(&(shape, "time", o, v.min(6)));
    }
    // (d) every key byte, one bit flipped
    for pos in 20..len {
        let mut g = f.clone();
        g[pos] ^= 1 << c.rng.below(8);
        c.inc("key_flip_states");
        let Some(o) = load_and_judge(c, "key-byte", &g, &tail, false, history, &|| json!({"kind": "key byte flipped", "offset": pos})) else { return };
        c.sig_of(&(shape, "keyflip", o));
    }
    c.sample(|| json!({"keys": n, "variant": variant, "file_len": len}));
}

// ------------------------------------------------------------------------------------------------
// the real ntpd key provider, in forked children

fn tmp_dir(c: &Case, tag: &str) -> std::path::PathBuf {
    let d = std::env::temp_dir().join(format!("verif-c27-{}-{}-{}-{}-{tag}", std::process::id(), c.seed, c.profile, c.idx));
    let _ = std::fs::remove_dir_all(&d);
    let _ = std::fs::create_dir_all(&d);
    d
}

/// Runs the real provider task in a forked child until it has completed `stores` store attempts,
/// optionally with the file size limited to `fsize_limit` bytes. Returns what the child saw:
/// {"cookies": [hex...] issued under the final key set for `sessions`, "decoded": [...] results of decoding `probe` cookies}
fn run_provider(path: &str, history: usize, stores: usize, fsize_limit: Option<u64>, sessions: &[SessionKeys], probes: &[Vec<u8>]) -> Ended {
    let path = path.to_string();
    in_child(move |_progress| {
        use ntpd::verif::m::config::KeysetConfig;
        use ntpd::verif::m::nts_key_provider::spawn;
        // SAFETY: plain libc calls in a freshly forked single-threaded child
        unsafe {
            libc::umask(0o022);
            if let Some(l) = fsize_limit {
                libc::signal(libc::SIGXFSZ, libc::SIG_IGN);
                let r = libc::rlimit { rlim_cur: l, rlim_max: l };
                if libc::setrlimit(libc::RLIMIT_FSIZE, &r) != 0 {
                    return json!({"error": "setrlimit failed"});
                }
            }
        }
        let rt = match tokio::runtime::Builder::new_current_thread().enable_all().build() {
            Ok(rt) => rt,
            Err(e) => return json!({"error": format!("runtime: {e}")}),
        };
        let cfg = KeysetConfig {
            stale_key_count: history,
            key_rotation_interval: 1_000_000,
            key_storage_path: Some(path.clone()),
        };
        // shape (key count, id offset, primary) of the set the task will load from an existing file
        let loaded_shape = std::fs::read(&path)
            .ok()
            .and_then(|b| KeySetProvider::load(&mut &b[..], history).ok())
            .map(|(p, _)| format!("{:?}", p.get()));
        let v = rt.block_on(async move {
            let mut rx = spawn(cfg).await;
            let initial = rx.borrow().clone();
            // the task sends the key set after every store attempt (the first send repeats the initial set)
            match tokio::time::timeout(std::time::Duration::from_secs(20), rx.changed()).await {
                Ok(Ok(())) => {}
                _ => return json!({"error": "provider task did not report a store in 20 s"}),
            }
            if stores >= 2 {
                // wait until the rotated set (different key count or id offset) has been stored and sent
                let Some(shape0) = loaded_shape else { return json!({"error": "rotation scenario needs a loadable file"}) };
                loop {
                    let cur = rx.borrow_and_update().clone();
                    if format!("{:?}", *cur) != shape0 || !std::sync::Arc::ptr_eq(&cur, &initial) {
                        break;
                    }
                    match tokio::time::timeout(std::time::Duration::from_secs(20), rx.changed()).await {
                        Ok(Ok(())) => {}
                        _ => return json!({"error": "provider task did not rotate in 20 s"}),
                    }
                }
            }
            let ks = rx.borrow().clone();
            let cookies: Vec<String> = sessions
                .iter()
                .map(|s| {
                    let dc = hp::make_cookie(s.alg, &s.s2c, &s.c2s).expect("key sizes");
                    hex(&hp::encode_cookie(&ks, &dc))
                })
                .collect();
            let decoded: Vec<Value> = probes
                .iter()
                .map(|p| match hp::decode_cookie_parts(&ks, p) {
                    Some((a, s2c, c2s)) => json!({"alg": a, "s2c": hex(&s2c), "c2s": hex(&c2s)}),
                    None => Value::Null,
                })
                .collect();
            json!({"cookies": cookies, "decoded": decoded, "shape": format!("{:?}", *ks)})
        });
        // the task's thread sleeps until the next rotation: do not wait for it
        rt.shutdown_background();
        v
    })
}

fn child_value(c: &mut Case, e: Ended, what: &str) -> Option<Value> {
    match e {
        Ended::Returned(v) => {
            if let Some(err) = v.get("error") {
                c.harness_error(format!("{what}: {err}"));
                None
            } else {
                Some(v)
            }
        }
        Ended::Exited(code, last) => {
            // the real task panicking/aborting is an event, but which property it breaks depends on the scenario
            c.harness_error(format!("{what}: child exited with {code}: {last:?}"));
            None
        }
        Ended::Signaled(s) => {
            c.harness_error(format!("{what}: child killed by signal {s}"));
            None
        }
        Ended::HarnessError(s) => {
            c.harness_error(format!("{what}: {s}"));
            None
        }
    }
}

fn forked_shape(c: &mut Case, shape: u64) {
    let n = (shape % 4) as usize + 1;
    let crash_enum = shape / 4 == 1;
    let history = n - 1;
    let prof = c.profile;
    let dir = tmp_dir(c, if crash_enum { "crash" } else { "restart" });
    let path = dir.join("keys.bin");
    let path_s = path.to_string_lossy().to_string();
    let sess: Vec<SessionKeys> = vec![SessionKeys::random(&mut c.rng, AEAD_256), SessionKeys::random(&mut c.rng, AEAD_512)];

    if !crash_enum {
        // ---- first start: no file; the task creates one ----
        let Some(v1) = child_value(c, run_provider(&path_s, history, 1, None, &sess, &[]), "first start") else { return };
        let cookies1: Vec<Vec<u8>> = v1["cookies"].as_array().map(|a| a.iter().map(|x| unhex(x.as_str().unwrap_or(""))).collect()).unwrap_or_default();
        match std::fs::metadata(&path) {
            Ok(m) => {
                c.inc("real_provider_mode_checks");
                let mode = m.permissions().mode() & 0o7777;
                if mode != 0o600 {
                    c.violation(
                        format!("key-file-mode/{prof}"),
                        format!("the newly created key file has mode {mode:o}, not 600"),
                        json!({"path": path_s, "mode_octal": format!("{mode:o}"), "umask": "022"}),
                    );
                }
            }
            Err(e) => {
                c.violation(format!("key-file-missing/{prof}"), format!("the provider task reported a store but there is no key file: {e}"), json!({"path": path_s}));
                let _ = std::fs::remove_dir_all(&dir);
                return;
            }
        }
        // ---- restart without rotation ----
        let Some(v2) = child_value(c, run_provider(&path_s, history, 1, None, &[], &cookies1), "restart") else { return };
        c.inc("real_provider_restarts");
        check_decoded(c, &v2, &sess, &cookies1, "restart", &path);
        // ---- make the file old, restart: the task rotates right away and stores the rotated set ----
        if let Ok(mut f) = std::fs::read(&path) {
            if f.len() >= 8 {
                f[0..8].copy_from_slice(&0u64.to_be_bytes());
                let _ = std::fs::write(&path, &f);
            }
        }
        let sess2: Vec<SessionKeys> = vec![SessionKeys::random(&mut c.rng, AEAD_512)];
        let Some(v3) = child_value(c, run_provider(&path_s, history, 2, None, &sess2, &cookies1), "restart with rotation") else { return };
        let cookies3: Vec<Vec<u8>> = v3["cookies"].as_array().map(|a| a.iter().map(|x| unhex(x.as_str().unwrap_or(""))).collect()).unwrap_or_default();
        // after one rotation the old cookies are valid iff history >= 1
        if history >= 1 {
            check_decoded(c, &v3, &sess, &cookies1, "restart+rotation", &path);
        }
        let Some(v4) = child_value(c, run_provider(&path_s, history, 1, None, &[], &cookies3), "second restart") else { return };
        c.inc("real_provider_restarts");
        check_decoded(c, &v4, &sess2, &cookies3, "restart-after-rotation", &path);
        c.sig_of(&("restart", n));
    } else {
        // ---- crash enumeration on the real store path ----
        // old file: n keys, written long ago, so the task loads it, stores it, rotates at once and stores the
        // rotated set (same size, since history = n-1). With the size limit k the second store is cut after k bytes.
        let keys: Vec<Vec<u8>> = (0..n).map(|_| c.rng.bytes(64)).collect();
        let old = pktgen::keyfile_bytes(0, 7, (n - 1) as u32, &keys);
        let len = old.len();
        // what the rotated set looks like cannot be known in advance (fresh random key): learn the set being
        // stored from an unlimited run first? No: each run draws its own key. Judge by structure instead:
        // the loaded set must be the old set (first store completed) or a set consisting of keys[1..] + one
        // new key with id offset 8 (the rotated set), or be rejected.
        // every k for one key (and for all sizes in the thorough tier); for larger files in the quick tier only the
        // structural boundaries (a forked daemon instance per crash point is expensive)
        let all_k = n == 1 || c.tier == Tier::Thorough;
        let ks: Vec<u64> = (0..=len as u64)
            .filter(|k| all_k || *k <= 21 || *k + 2 >= len as u64 || (*k >= 20 && (*k - 20 + 1) % 64 <= 2))
            .collect();
        if all_k {
            c.inc("real_provider_crash_enumerations_complete");
        }
        for k in ks {
            let _ = std::fs::write(&path, &old);
            let _ = std::fs::set_permissions(&path, std::fs::Permissions::from_mode(0o600));
            let Some(_v) = child_value(c, run_provider(&path_s, history, 2, Some(k), &[], &[]), "crash run") else {
                let _ = std::fs::remove_dir_all(&dir);
                return;
            };
            c.inc("real_provider_crash_points");
            let state = std::fs::read(&path).unwrap_or_default();
            let what = json!({"kind": "real provider store limited by RLIMIT_FSIZE", "limit": k, "old_file_hex": hex(&old)});
            let r = match guard(|| KeySetProvider::load(&mut &state[..], history)) {
                Ok(r) => r,
                Err(p) => {
                    c.violation(format!("load-panic/real-crash/{prof}/{}", p.site()), format!("load panicked on a crash state: {}", p.message), json!({"file_hex": hex(&state), "fault": what}));
                    continue;
                }
            };
            let outcome = match r {
                Err(_) => "rejected",
                Ok((p, _)) => {
                    let st = pktgen::stored_bytes(&p);
                    let kf = pktgen::parse_keyfile(&st);
                    let is_old = st.len() >= 8 && st[8..] == old[8..];
                    let is_rotated = kf.as_ref().map(|kf| {
                        kf.keys.len() == n
                            && kf.len as usize == n
                            && kf.primary as usize == n - 1
                            && kf.id_offset == 8
                            && kf.keys[..n - 1] == keys[1..]
                            && !keys.contains(&kf.keys[n - 1])
                    });
                    if is_old {
                        "old-set"
                    } else if is_rotated == Some(true) {
                        "rotated-set"
                    } else {
                        c.violation(
                            format!("real-crash-state-loads-other-set/{prof}"),
                            format!("after the real provider's store was cut at {k} bytes the file loads as a key set that is neither the stored set nor the previous one"),
                            json!({"file_hex": hex(&state), "fault": what}),
                        );
                        "other"
                    }
                }
            };
            if k as usize == len && outcome != "rotated-set" {
                c.harness_error(format!("unlimited store did not leave the rotated set: {outcome}"));
            }
            c.sig_of(&("crash", n, outcome, (k as usize).min(21)));
        }
    }
    let _ = std::fs::remove_dir_all(&dir);
}

fn check_decoded(c: &mut Case, v: &Value, sess: &[SessionKeys], cookies: &[Vec<u8>], scenario: &str, path: &std::path::Path) {
    let prof = c.profile;
    let dec = v["decoded"].as_array().cloned().unwrap_or_default();
    if dec.len() != cookies.len() || cookies.len() != sess.len() {
        c.harness_error(format!("{scenario}: child returned {} results for {} cookies", dec.len(), cookies.len()));
        return;
    }
    for (i, d) in dec.iter().enumerate() {
        let ok = d["alg"].as_u64() == Some(sess[i].alg as u64) && d["s2c"].as_str() == Some(&hex(&sess[i].s2c)) && d["c2s"].as_str() == Some(&hex(&sess[i].c2s));
        if !ok {
            let file = std::fs::read(path).unwrap_or_default();
            c.violation(
                format!("cookie-lost-over-restart/{scenario}/{prof}"),
                format!("a cookie issued before the restart does not decode to its keys afterwards ({scenario})"),
                json!({"cookie_hex": hex(&cookies[i]), "decoded": d, "key_file_after_hex": hex(&file)}),
            );
            return;
        }
    }
}

fn run(c: &mut Case) {
    let per_round = IN_PROCESS_SHAPES + FORKED_SHAPES;
    let s = c.idx % per_round;
    if s < IN_PROCESS_SHAPES {
        in_process_shape(c, s);
    } else {
        forked_shape(c, s - IN_PROCESS_SHAPES);
    }
}
