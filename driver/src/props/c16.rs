//! C16 — server responses are never larger than the request.
//!
//! Events: (a) in process: length of the message in `ServerAction::Respond` when the real
//! `Server::handle` gets the daemon's request-sized buffer; (b) end to end: datagrams sent over
//! UDP to the real daemon `ServerTask` and the datagrams that come back.
//! Oracle: len(reply) <= len(request).

use crate::common::srvsim as sim;
use crate::core::{Case, Profiles, Prop, Tier, hex};
use serde_json::json;

pub static PROP: Prop = Prop {
    id: "C16",
    level: "exploration",
    rule: "case = one real Server (random lists/actions/require-nts/versions, synchronisation state, rotated key set) handling 24 \
           datagrams from the E-SRV generators with emphasis on echo paths (unique ids of every length, reference-id requests, \
           cookies/placeholders shorter than a fresh cookie, v5 padding, short v4 last fields, MAC tails), request-sized buffer as in \
           the daemon; every 90th case additionally starts the real daemon ServerTask on 127.0.0.1 and sends 120 generated datagrams \
           over UDP, each followed by an ordering sentinel, and measures what comes back. Non-trivial = a reply was produced; \
           distinct = (generator class, layout fingerprint, reply kind, path in-process/e2e).",
    assumptions: &[
        "end-to-end runs use loopback UDP; a reply is attributed to the datagram sent immediately before the sentinel whose answer follows it (the server task handles its socket sequentially)",
        "the length a larger buffer would have allowed is recorded as a counter (would_amplify_with_big_buffer) but not judged: the daemon never passes one",
    ],
    profiles: Profiles::Ship,
    cases: |t| t.pick(36_000, 400_000),
    budget_s: |t| t.pick(40, 400),
    run,
    min_nontrivial: 300,
    required_counters: &["replies_inproc", "replies_e2e", "e2e_datagrams", "nts_time_replies", "v5_replies", "uid_echo_replies"],
    exhaustive: false,
    crash_is_violation: false,
};

fn emphasised(c: &mut Case, keys: &sim::KeyWorld) -> Result<sim::Req, String> {
    let flavor = *c.rng.pick(&sim::FLAVORS);
    match c.rng.below(10) {
        0 | 1 | 2 | 3 => sim::gen_lenient(&mut c.rng, flavor, keys),
        4 | 5 | 6 => sim::gen_valid(&mut c.rng, flavor, keys, sim::NtsPlan::Good),
        _ => sim::gen_any(&mut c.rng, keys),
    }
}

fn note_reply(c: &mut Case, req: &sim::Req, reply: &[u8], path: &'static str) {
    if let Some(p) = crate::common::refntp::parse(reply) {
        let kind = sim::classify(&p.header);
        if kind == sim::ReplyKind::Time && req.truth.nts.is_some() {
            c.inc("nts_time_replies");
        }
        if p.header.version == 5 {
            c.inc("v5_replies");
        }
        if p.fields.iter().any(|f| f.type_id == crate::common::refntp::EF_UNIQUE_ID) {
            c.inc("uid_echo_replies");
        }
        c.sig_of(&(&req.truth.class, req.truth.shape, kind, path));
    }
}

fn run(c: &mut Case) {
    let recv = c.rng.u64();
    let cfg = sim::gen_cfg(&mut c.rng, sim::CfgOpts { lists: false, rate: sim::RateMode::Off, require_nts: true, version_subsets: false });
    let (spec, info) = sim::gen_info(&mut c.rng, recv, false);
    let keys = match sim::gen_keys(&mut c.rng, 5, 3) {
        Ok(k) => k,
        Err(e) => return c.harness_error(e),
    };
    let now = recv.wrapping_add(c.rng.below(1 << 30));
    if c.idx % 90 == 89 {
        return e2e(c, spec, info, keys, now);
    }
    let mut w = match sim::build_world(cfg.clone(), spec, info, keys, now) {
        Ok(w) => w,
        Err(e) => return c.harness_error(e),
    };
    // twin with a large buffer: informational only
    let mut big = match sim::build_server(&cfg, *w.info_handle.read().unwrap(), w.keys.current(), w.clock.clone()) {
        Ok(b) => b.0,
        Err(e) => return c.harness_error(e),
    };
    let mut spy = sim::Spy::default();
    let mut spy_big = sim::Spy::default();
    for k in 0..24u64 {
        let req = match emphasised(c, &w.keys) {
            Ok(r) => r,
            Err(e) => {
                c.harness_error(e);
                continue;
            }
        };
        let ip = sim::gen_client(&mut c.rng, &w.cfg);
        let server = &mut w.server;
        let h = match crate::core::guard(|| sim::handle_like_daemon(server, &mut spy, ip, recv.wrapping_add(k), &req.bytes)) {
            Ok(h) => h,
            Err(_) => {
                c.inc("panics_not_judged_here");
                return;
            }
        };
        c.inc("datagrams_inproc");
        if let Some(r) = &h.reply {
            c.inc("replies_inproc");
            note_reply(c, &req, r, "inproc");
            if r.len() > req.bytes.len() {
                c.violation(
                    "amplify/inproc",
                    format!("reply of {} bytes to a request of {} bytes (request-sized buffer)", r.len(), req.bytes.len()),
                    json!({"request": req.json(), "reply": hex(r), "client": ip.to_string(), "config": w.cfg.json()}),
                );
            }
        }
        if let Ok(hb) = crate::core::guard(|| sim::handle_buf(&mut big, &mut spy_big, ip, recv.wrapping_add(k), &req.bytes, 8192)) {
            if let Some(r) = hb.reply {
                if r.len() > req.bytes.len() {
                    c.inc("would_amplify_with_big_buffer");
                }
            }
        } else {
            return;
        }
        if k == 0 {
            c.sample(|| json!({"request": req.json(), "reply_len": h.reply.as_ref().map(|r| r.len())}));
        }
    }
}

fn e2e(c: &mut Case, spec: sim::InfoSpec, info: ntp_proto::NtpServerInfo, keys: sim::KeyWorld, now: u64) {
    // a configuration that answers the sentinel (plain v4 from 127.0.0.1) with time or DENY
    let mut cfg = sim::CfgSpec::open();
    cfg.versions = match c.rng.below(3) {
        0 => vec![4],
        1 => vec![3, 4],
        _ => vec![3, 4, 5],
    };
    match c.rng.below(6) {
        0 => cfg.require_nts = Some(sim::Act::Deny),
        1 => {
            cfg.deny = vec![sim::Subnet { addr: "127.0.0.0".parse().unwrap(), mask: 8, text: None }];
            cfg.deny_action = sim::Act::Deny;
        }
        2 => {
            cfg.allow = vec![sim::Subnet { addr: "10.0.0.0".parse().unwrap(), mask: 8, text: None }];
            cfg.allow_action = sim::Act::Deny;
        }
        _ => {}
    }
    if c.rng.bool() {
        cfg.cache_size = 8;
        cfg.cutoff = std::time::Duration::ZERO;
    }
    let port_seed = (std::process::id() as u64).wrapping_mul(131).wrapping_add(c.idx);
    let mut srv = match sim::E2e::start(&cfg, info, keys.current(), now, port_seed) {
        Ok(s) => s,
        Err(_) => {
            // loopback/scheduling trouble on a loaded machine: no events, no verdict from this case
            // (a run without any end-to-end reply is inconclusive through required_counters)
            c.inc("e2e_start_failed");
            return;
        }
    };
    c.inc("e2e_runs");
    for k in 0..120 {
        let req = match emphasised(c, &keys) {
            Ok(r) => r,
            Err(e) => {
                c.harness_error(e);
                continue;
            }
        };
        if req.bytes.len() > 1024 {
            continue;
        }
        let (answers, sentinel) = match srv.exchange(&req.bytes) {
            Ok(x) => x,
            Err(_) => {
                c.inc("e2e_exchange_timeouts");
                return;
            }
        };
        c.inc("e2e_datagrams");
        if sentinel.len() > 48 {
            c.violation("amplify/e2e/sentinel", format!("{}-byte answer to a 48-byte request", sentinel.len()), json!({"reply": hex(&sentinel), "config": cfg.json()}));
        }
        if answers.len() > 1 {
            c.violation("amplify/e2e/several-replies", format!("{} datagrams came back for one request", answers.len()), json!({"request": req.json(), "replies": answers.iter().map(|a| hex(a)).collect::<Vec<_>>(), "config": cfg.json()}));
        }
        for a in &answers {
            c.inc("replies_e2e");
            note_reply(c, &req, a, "e2e");
            if a.len() > req.bytes.len() {
                c.violation(
                    "amplify/e2e",
                    format!("the daemon sent {} bytes in reply to a datagram of {} bytes", a.len(), req.bytes.len()),
                    json!({"request": req.json(), "reply": hex(a), "config": cfg.json(), "state": spec.json()}),
                );
            }
        }
        if k == 0 {
            c.sample(|| json!({"e2e": true, "request": req.json(), "reply_lens": answers.iter().map(|a| a.len()).collect::<Vec<_>>()}));
        }
    }
}
