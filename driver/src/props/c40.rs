//! C40 — GPSd SOCK samples are validated before use.
//!
//! Events: every `handle_measurement` call reaching a spy source controller of the
//! REAL `SockSourceTask` (spawned exactly as the daemon spawns it, bound to a Unix
//! datagram socket in a temp dir), and the end of the task (panic) if it happens.
//! Workload: hostile *probe* datagrams (lengths 0–200, every field hostile); each
//! probe is followed by a valid *marker* sample whose offset is a unique integer
//! tag, so that (a) the harness knows deterministically when the task has
//! consumed the probe (the marker's measurement arrives) and (b) every
//! measurement is attributed to exactly one datagram. No sleeping.
//! Oracle (own 40-byte sample decoder): a probe yields a measurement only if it
//! has exactly 40 bytes, the magic 0x534f434b, pulse 0 and a finite offset; at
//! most one measurement per probe; the task is alive after every datagram.

use crate::core::{Case, Profiles, Prop, Tier, hex, take_last_panic};
use ntp_proto::verif::misc::{ts_from_u64, ts_to_u64};
use ntp_proto::{Measurement, NtpClock, NtpDuration, NtpLeapIndicator, NtpTimestamp, ObservableSourceTimedata, PollInterval, SourceController};
use ntpd::verif::sock::{SockTask, spawn_sock_task};
use serde_json::json;
use std::path::PathBuf;
use tokio::sync::mpsc::{UnboundedReceiver, UnboundedSender, unbounded_channel};

pub static PROP: Prop = Prop {
    id: "C40",
    level: "exploration",
    rule: "case = one real SockSourceTask on a fresh Unix datagram socket receiving 8-24 probe datagrams, each followed by a \
           valid marker sample with a unique integer offset tag (drain + attribution). Probe classes: valid samples (all leap \
           classes, extreme/subnormal finite offsets), wrong magic (bit flips, byte order, random), pulse != 0, NaN/+-inf \
           offsets, truncated samples (0-39 bytes), over-long datagrams (41-200 bytes) whose first 40 bytes are a valid \
           sample, magic at the tail, random bytes of random length. Non-trivial = the marker after the probe was observed \
           (so the task provably consumed the probe) or the task ended; distinct signature = (probe class, length bucket, \
           eligible?, measurements attributed, task died?).",
    assumptions: &[
        "a Unix datagram socket delivers datagrams of one sender in order and the task handles them sequentially, so measurements between two markers belong to the probe sent between them",
        "the mock clock returns a constant timestamp; offsets are recovered as receiver_ts - sender_ts",
        "an eligible sample that produces no measurement is counted, not judged (the statement is an 'only if')",
    ],
    profiles: Profiles::Both,
    cases: |t| t.pick(2_400, 60_000),
    budget_s: |t| t.pick(40, 400),
    run,
    min_nontrivial: 30,
    required_counters: &["probes", "markers_seen", "eligible_measured", "ineligible_rejected", "oversize_probes", "nonfinite_probes", "wrong_magic_probes", "pulse_probes", "short_probes"],
    exhaustive: false,
    crash_is_violation: true,
};

const MAGIC: i32 = 0x534f434b;
const SAMPLE: usize = 40;
const MARK_BASE: f64 = 1_000_000.0;
const CLOCK_NOW: u64 = 0xE000_0000_8000_0000;

#[derive(Clone)]
struct FixedClock;

impl NtpClock for FixedClock {
    type Error = std::convert::Infallible;
    fn now(&self) -> Result<NtpTimestamp, Self::Error> {
        Ok(ts_from_u64(CLOCK_NOW))
    }
    fn set_frequency(&self, _freq: f64) -> Result<NtpTimestamp, Self::Error> {
        self.now()
    }
    fn get_frequency(&self) -> Result<f64, Self::Error> {
        Ok(0.0)
    }
    fn step_clock(&self, _offset: NtpDuration) -> Result<NtpTimestamp, Self::Error> {
        self.now()
    }
    fn disable_ntp_algorithm(&self) -> Result<(), Self::Error> {
        Ok(())
    }
    fn error_estimate_update(&self, _e: NtpDuration, _m: NtpDuration) -> Result<(), Self::Error> {
        Ok(())
    }
    fn status_update(&self, _l: NtpLeapIndicator) -> Result<(), Self::Error> {
        Ok(())
    }
}

#[derive(Debug, Clone, Copy)]
struct Meas {
    /// receiver_ts - sender_ts in raw 2^-32 s units
    diff: i64,
    receiver: u64,
    leap: u8,
}

struct Spy {
    tx: UnboundedSender<Meas>,
}

impl SourceController for Spy {
    fn handle_measurement(&mut self, m: Measurement) {
        let r = ts_to_u64(m.receiver_ts);
        let s = ts_to_u64(m.sender_ts);
        let leap = match m.leap {
            NtpLeapIndicator::NoWarning => 0,
            NtpLeapIndicator::Leap61 => 1,
            NtpLeapIndicator::Leap59 => 2,
            NtpLeapIndicator::Unknown => 3,
            NtpLeapIndicator::Unsynchronized => 4,
        };
        let _ = self.tx.send(Meas { diff: r.wrapping_sub(s) as i64, receiver: r, leap });
    }
    fn set_usable(&mut self, _usable: bool) {}
    fn desired_poll_interval(&self) -> PollInterval {
        PollInterval::default()
    }
    fn observe(&self) -> ObservableSourceTimedata {
        ObservableSourceTimedata::default()
    }
}

/// the harness's own encoder of the 40-byte gpsd SOCK sample
fn sample(tv_sec: i64, tv_usec: i64, offset: f64, pulse: i32, leap: i32, pad: i32, magic: i32) -> Vec<u8> {
    let mut b = Vec::with_capacity(SAMPLE);
    b.extend_from_slice(&tv_sec.to_le_bytes());
    b.extend_from_slice(&tv_usec.to_le_bytes());
    b.extend_from_slice(&offset.to_le_bytes());
    b.extend_from_slice(&pulse.to_le_bytes());
    b.extend_from_slice(&leap.to_le_bytes());
    b.extend_from_slice(&pad.to_le_bytes());
    b.extend_from_slice(&magic.to_le_bytes());
    b
}

/// the oracle's own reading of a datagram: why it may not become a measurement
fn ineligible_reason(d: &[u8]) -> Option<&'static str> {
    if d.len() > SAMPLE {
        return Some("oversize");
    }
    if d.len() < SAMPLE {
        return Some("short");
    }
    let magic = i32::from_le_bytes(d[36..40].try_into().unwrap());
    if magic != MAGIC {
        return Some("wrong-magic");
    }
    let pulse = i32::from_le_bytes(d[24..28].try_into().unwrap());
    if pulse != 0 {
        return Some("pulse");
    }
    let off = f64::from_le_bytes(d[16..24].try_into().unwrap());
    if !off.is_finite() {
        return Some("nonfinite-offset");
    }
    None
}

fn safe_offset(x: f64) -> f64 {
    // never alias a marker tag
    if x.is_finite() && x >= MARK_BASE - 1.0 && x <= MARK_BASE + 1.0e7 { -x } else { x }
}

fn finite_offset(c: &mut Case) -> f64 {
    let x = match c.rng.below(8) {
        0 => c.rng.f64_range(-1.0, 1.0),
        1 => c.rng.log_uniform(1e-12, 1e5) * if c.rng.bool() { 1.0 } else { -1.0 },
        2 => *c.rng.pick(&[0.0, -0.0, 1e300, -1e300, f64::MAX, f64::MIN, f64::MIN_POSITIVE, 5e-324, -5e-324]),
        3 => *c.rng.pick(&[2147483647.0, 2147483648.0, -2147483648.0, -2147483649.0, 4294967296.0, 2147483647.999999, -2147483648.000001, 9.3e18, -9.3e18]),
        4 => f64::from_bits(c.rng.below(1 << 52)),
        5 => c.rng.range(-100000, 100000) as f64,
        _ => c.rng.finite_f64(),
    };
    safe_offset(x)
}

fn nonfinite(c: &mut Case) -> f64 {
    match c.rng.below(6) {
        0 => f64::NAN,
        1 => f64::INFINITY,
        2 => f64::NEG_INFINITY,
        3 => f64::from_bits(0x7ff0_0000_0000_0001 | c.rng.below(1 << 51)), // signalling NaN payloads
        4 => f64::from_bits(0xfff8_0000_0000_0000 | c.rng.below(1 << 51)), // negative quiet NaN
        _ => -f64::NAN,
    }
}

fn leap_value(c: &mut Case) -> i32 {
    match c.rng.below(6) {
        0 => 0,
        1 => 1,
        2 => 2,
        3 => 3,
        4 => -1,
        _ => c.rng.u32() as i32,
    }
}

fn valid_sample(c: &mut Case) -> Vec<u8> {
    let off = finite_offset(c);
    let leap = leap_value(c);
    sample(c.rng.i64(), c.rng.i64(), off, 0, leap, c.rng.u32() as i32, MAGIC)
}

/// returns (class name, datagram)
fn probe(c: &mut Case) -> (&'static str, Vec<u8>) {
    match c.rng.below(14) {
        0 | 1 => ("valid", valid_sample(c)),
        2 => {
            let mut d = valid_sample(c);
            let m = match c.rng.below(5) {
                0 => MAGIC ^ (1 << c.rng.below(32)),
                1 => MAGIC.swap_bytes(),
                2 => 0,
                3 => MAGIC.wrapping_add(if c.rng.bool() { 1 } else { -1 }),
                _ => c.rng.u32() as i32,
            };
            d[36..40].copy_from_slice(&m.to_le_bytes());
            ("wrong-magic", d)
        }
        3 => {
            let mut d = valid_sample(c);
            let p: i32 = match c.rng.below(5) {
                0 => 1,
                1 => -1,
                2 => i32::MIN,
                3 => 1 << c.rng.below(32),
                _ => c.rng.u32() as i32 | 1,
            };
            d[24..28].copy_from_slice(&p.to_le_bytes());
            ("pulse", d)
        }
        4 | 5 => {
            let mut d = valid_sample(c);
            let o = nonfinite(c);
            d[16..24].copy_from_slice(&o.to_le_bytes());
            ("nonfinite", d)
        }
        6 => {
            let d = valid_sample(c);
            let n = c.rng.usize(0, SAMPLE - 1);
            ("short", d[..n].to_vec())
        }
        7 | 8 => {
            // over-long datagram whose first 40 bytes are a valid sample
            let mut d = valid_sample(c);
            let extra = match c.rng.below(3) {
                0 => 1,
                1 => c.rng.usize(1, 8),
                _ => c.rng.usize(1, 160),
            };
            let tail = c.rng.bytes(extra);
            d.extend_from_slice(&tail);
            ("oversize-valid-prefix", d)
        }
        9 => {
            // over-long datagram, magic only at the tail
            let n = c.rng.usize(SAMPLE + 4, 200);
            let mut d = c.rng.bytes(n);
            d[n - 4..].copy_from_slice(&MAGIC.to_le_bytes());
            d[24..28].copy_from_slice(&0i32.to_le_bytes());
            ("oversize-magic-at-tail", d)
        }
        10 => {
            let n = c.rng.usize(0, 200);
            ("random", c.rng.bytes(n))
        }
        11 => {
            // 40 random bytes with the right magic (pulse random)
            let mut d = c.rng.bytes(SAMPLE);
            d[36..40].copy_from_slice(&MAGIC.to_le_bytes());
            if c.rng.bool() {
                d[24..28].copy_from_slice(&0i32.to_le_bytes());
            }
            ("random-with-magic", d)
        }
        12 => {
            // two samples glued together (80 bytes)
            let mut d = valid_sample(c);
            let e = valid_sample(c);
            d.extend_from_slice(&e);
            ("two-samples", d)
        }
        _ => {
            // nonfinite offset AND extra hostile fields
            let o = nonfinite(c);
            let leap = leap_value(c);
            ("nonfinite", sample(i64::MIN, i64::MAX, o, 0, leap, -1, MAGIC))
        }
    }
}

fn tmp_dir() -> PathBuf {
    let d = std::env::temp_dir().join(format!("verif-c40-{}", std::process::id()));
    let _ = std::fs::create_dir_all(&d);
    d
}

struct Live {
    task: SockTask,
    rx: UnboundedReceiver<Meas>,
    sock: tokio::net::UnixDatagram,
    path: PathBuf,
}

fn start(c: &mut Case, n: usize) -> Option<Live> {
    let path = tmp_dir().join(format!("s{}-{}.sock", c.idx, n));
    let (tx, rx) = unbounded_channel();
    let p2 = path.clone();
    let task = match crate::core::guard(move || spawn_sock_task(p2, FixedClock, Spy { tx })) {
        Ok(t) => t,
        Err(p) => {
            c.harness_error(format!("cannot start the SOCK task: {} {}", p.location, p.message));
            return None;
        }
    };
    let sock = match tokio::net::UnixDatagram::unbound().and_then(|s| s.connect(&path).map(|_| s)) {
        Ok(s) => s,
        Err(e) => {
            c.harness_error(format!("cannot connect to the SOCK socket: {e}"));
            task.join.abort();
            let _ = std::fs::remove_file(&path);
            return None;
        }
    };
    c.inc("tasks_spawned");
    Some(Live { task, rx, sock, path })
}

enum Waited {
    Marker(Vec<Meas>),
    Died(Vec<Meas>, bool),
    Watchdog(Vec<Meas>),
}

/// wait until the measurement of the marker with raw tag `tag` arrives, collecting
/// everything that arrives before it; also notices the end of the task
async fn wait_marker(l: &mut Live, tag: i64) -> Waited {
    let mut got = Vec::new();
    // watchdog: harness safety net only (never a verdict)
    let deadline = tokio::time::sleep(std::time::Duration::from_secs(60));
    tokio::pin!(deadline);
    loop {
        tokio::select! {
            biased;
            m = l.rx.recv() => {
                match m {
                    Some(m) if m.diff == tag => return Waited::Marker(got),
                    Some(m) => got.push(m),
                    None => {
                        // spy dropped: the task (and its controller) is gone
                        let panicked = (&mut l.task.join).await.map(|_| false).unwrap_or_else(|e| e.is_panic());
                        return Waited::Died(got, panicked);
                    }
                }
            }
            _ = &mut deadline => return Waited::Watchdog(got),
        }
    }
}

fn run(c: &mut Case) {
    let rt = match tokio::runtime::Builder::new_current_thread().enable_all().build() {
        Ok(rt) => rt,
        Err(e) => {
            c.harness_error(format!("runtime: {e}"));
            return;
        }
    };
    let n_probes = c.rng.usize(8, 24);
    let mut plan: Vec<(&'static str, Vec<u8>)> = (0..n_probes).map(|_| probe(c)).collect();
    rt.block_on(async {
        let mut gen_no = 0usize;
        let mut live = match start(c, gen_no) {
            Some(l) => l,
            None => return,
        };
        let mut seq: i64 = 0;
        // a first marker proves the task is up before any probe is judged
        for (pi, (class, d)) in std::iter::once(("warmup", Vec::new())).chain(plan.drain(..)).enumerate() {
            let is_warmup = pi == 0;
            seq += 1;
            let tag_off = MARK_BASE + seq as f64;
            let tag_raw = ((1_000_000 + seq) as i64) << 32;
            let marker = sample(seq, 0, tag_off, 0, 0, 0, MAGIC);
            if !is_warmup {
                if let Err(e) = live.sock.send(&d).await {
                    c.harness_error(format!("send probe ({} bytes): {e}", d.len()));
                    break;
                }
                c.inc("datagrams_sent");
                c.inc("probes");
            }
            let send_marker = live.sock.send(&marker).await;
            c.inc("datagrams_sent");
            let reason = if is_warmup { None } else { ineligible_reason(&d) };
            if !is_warmup {
                match reason {
                    Some("oversize") => c.inc("oversize_probes"),
                    Some("short") => c.inc("short_probes"),
                    Some("wrong-magic") => c.inc("wrong_magic_probes"),
                    Some("pulse") => c.inc("pulse_probes"),
                    Some("nonfinite-offset") => c.inc("nonfinite_probes"),
                    _ => c.inc("eligible_probes"),
                }
            }
            let waited = wait_marker(&mut live, tag_raw).await;
            let (got, died, panicked, drained) = match waited {
                Waited::Marker(g) => {
                    c.inc("markers_seen");
                    (g, false, false, true)
                }
                Waited::Died(g, p) => (g, true, p, true),
                Waited::Watchdog(g) => {
                    c.harness_error(format!(
                        "marker {seq} not seen within the watchdog (send result {send_marker:?}); probe class {class}, {} bytes",
                        d.len()
                    ));
                    (g, false, false, false)
                }
            };
            if is_warmup {
                if !drained || died {
                    c.harness_error("SOCK task did not process the warm-up marker");
                    break;
                }
                continue;
            }
            let detail = |extra: serde_json::Value| {
                json!({"probe_class": class, "datagram_hex": hex(&d), "len": d.len(), "oracle_reason_not_eligible": reason,
                       "offset_field": if d.len() >= 24 { json!(format!("{:?}", f64::from_le_bytes(d[16..24].try_into().unwrap()))) } else { json!(null) },
                       "observed": extra})
            };
            let lenb = match d.len() {
                0 => 0,
                1..=39 => 1,
                40 => 2,
                41..=48 => 3,
                _ => 4,
            };
            let (off_class, leap_class) = if d.len() >= 32 {
                let o = f64::from_le_bytes(d[16..24].try_into().unwrap());
                let l = i32::from_le_bytes(d[28..32].try_into().unwrap());
                (
                    if o.is_nan() { 0u8 } else if o.is_infinite() { 1 } else if o == 0.0 { 2 } else if o.abs() < f64::MIN_POSITIVE { 3 } else if o.abs() < 1.0 { 4 } else if o.abs() < 2147483648.0 { 5 } else { 6 },
                    match l { 0 => 0u8, 1 => 1, 2 => 2, 3 => 3, x if x < 0 => 4, _ => 5 },
                )
            } else {
                (9, 9)
            };
            c.sig_of(&(class, lenb, reason, got.len().min(3), died, off_class, leap_class));
            if drained {
                if let Some(r) = reason {
                    if got.is_empty() {
                        c.inc("ineligible_rejected");
                    }
                    if let Some(m) = got.first() {
                        c.inc("ineligible_measured");
                        c.violation(
                            format!("measured/{r}/{}", c.profile),
                            format!(
                                "a {}-byte datagram ({class}; not a valid sample: {r}) became a measurement (offset {} raw units, leap {})",
                                d.len(), m.diff, m.leap
                            ),
                            detail(json!({"measurements": got.iter().map(|m| json!({"diff_raw": m.diff, "leap": m.leap})).collect::<Vec<_>>() })),
                        );
                    }
                } else if got.is_empty() {
                    if !died {
                        c.inc("eligible_not_measured_not_judged");
                    }
                } else {
                    c.inc("eligible_measured");
                }
                if got.len() > 1 {
                    c.violation(
                        format!("measured-twice/{}", c.profile),
                        format!("one {}-byte datagram ({class}) produced {} measurements", d.len(), got.len()),
                        detail(json!({"count": got.len()})),
                    );
                }
            }
            if died {
                c.inc("task_deaths");
                let p = take_last_panic();
                let why = reason.unwrap_or("valid-sample");
                c.violation(
                    format!("task-died/{why}/{}/{}", c.profile, if panicked { p.site() } else { "ended".to_string() }),
                    format!(
                        "the SOCK source task ended while handling a {}-byte datagram ({class}): {} {}",
                        d.len(), p.location, p.message
                    ),
                    detail(json!({"panicked": panicked, "panic_location": p.location, "panic_message": p.message})),
                );
                // continue the batch on a fresh task
                let _ = std::fs::remove_file(&live.path);
                gen_no += 1;
                live = match start(c, gen_no) {
                    Some(l) => l,
                    None => return,
                };
                // warm-up marker on the new task
                seq += 1;
                let tag_raw = ((1_000_000 + seq) as i64) << 32;
                let marker = sample(seq, 0, MARK_BASE + seq as f64, 0, 0, 0, MAGIC);
                let _ = live.sock.send(&marker).await;
                match wait_marker(&mut live, tag_raw).await {
                    Waited::Marker(_) => {}
                    _ => {
                        c.harness_error("replacement SOCK task did not process its warm-up marker");
                        break;
                    }
                }
            } else if !drained {
                break;
            }
            c.sample(|| json!({"probe_class": class, "len": d.len(), "datagram_hex": hex(&d), "eligible": reason.is_none(), "measurements": got.len()}));
        }
        live.task.join.abort();
        let _ = (&mut live.task.join).await;
        let _ = std::fs::remove_file(&live.path);
    });
    drop(rt);
    let _ = std::fs::remove_dir(tmp_dir());
}
