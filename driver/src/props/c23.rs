//! C23 — the NTP packet decoder is total.
//!
//! Events: return value / panic of `NtpPacket::deserialize` for one byte string in the three key
//! contexts (NoCipher, client s2c cipher, server KeySet).
//! Oracle: the call returns (a packet or an error) — no panic, no abort — in both build profiles.

use crate::common::pktgen::{self, ALL_CTX, CLASS_NAMES, Ctx, World};
use crate::core::{Case, Profiles, Prop, Tier, hex};
use ntp_proto::PacketParsingError;
use ntp_proto::verif::packet::a6 as hk;
use serde_json::json;

pub static PROP: Prop = Prop {
    id: "C23",
    level: "exploration",
    rule: "case = one byte string (0..=4096 bytes) of input class idx%10 (raw random; grammar v3/v4/v5 with every \
           extension-field type; grammar with hostile fields and lying lengths; valid NTS request/response sealed by \
           the harness with real AES-SIV; valid AEAD layer around hostile plaintext; odd nonce sizes/padding; valid \
           AEAD cookie around hostile cookie plaintext; length-field boundary values; mutations of valid encodings; \
           NTS sealed under a wrong key), decoded with NoCipher, the session's s2c cipher and the server KeySet \
           (fresh random keys per case). Distinct non-trivial = distinct (class, context, outcome kind, version, \
           list-shape) tuples.",
    assumptions: &[
        "the AEAD layer of generated packets is produced by the aes-siv crate through a guarded hook (caller-chosen nonce), not by the repository's encoder",
        "a panic in either build profile counts; the signature records the profile",
    ],
    profiles: Profiles::Both,
    cases: |t| t.pick(600_000, 6_000_000),
    budget_s: |t| t.pick(40, 420),
    run,
    min_nontrivial: 100,
    required_counters: &[
        "decoded_none",
        "decoded_client",
        "decoded_server",
        "ok_none",
        "authenticated_client",
        "authenticated_server",
        "class_raw",
        "class_nts-hostile-plaintext",
        "class_hostile-cookie",
        "class_boundary",
        "class_mutated",
    ],
    exhaustive: false,
    crash_is_violation: true,
};

fn outcome_kind(r: &Result<(ntp_proto::NtpPacket<'_>, Option<ntp_proto::DecodedServerCookie>), PacketParsingError<'_>>) -> (u8, u8, u8, u8) {
    match r {
        Ok((p, cookie)) => {
            let (a, e, u, mac) = hk::field_counts(p);
            (
                if cookie.is_some() { 1 } else { 0 },
                a.min(3) as u8 * 4 + e.min(3) as u8,
                u.min(4) as u8,
                mac as u8,
            )
        }
        Err(e) => (
            match e {
                PacketParsingError::InvalidVersion(_) => 10,
                PacketParsingError::IncorrectLength => 11,
                PacketParsingError::MalformedNtsExtensionFields => 12,
                PacketParsingError::MalformedNonce => 13,
                PacketParsingError::MalformedCookiePlaceholder => 14,
                PacketParsingError::DecryptError(_) => 15,
                PacketParsingError::V5(_) => 16,
            },
            0,
            0,
            0,
        ),
    }
}

fn run(c: &mut Case) {
    let world = World::new(&mut c.rng);
    let class = (c.idx % CLASS_NAMES.len() as u64) as usize;
    let data = pktgen::input_of_class(&mut c.rng, &world, class);
    c.inc(&format!("class_{}", CLASS_NAMES[class]));
    let version = data.first().map(|b| (b >> 3) & 7).unwrap_or(8);
    for ctx in ALL_CTX {
        let detail = || {
            json!({
                "context": format!("{ctx:?}"),
                "class": CLASS_NAMES[class],
                "datagram_hex": hex(&data),
                "session_alg": world.session.alg,
                "session_s2c_hex": hex(&world.session.s2c),
                "session_c2s_hex": hex(&world.session.c2s),
                "server_keyfile_hex": hex(&pktgen::keyfile_bytes(1_700_000_000, world.server.id_offset, world.server.primary, &world.server.keys)),
            })
        };
        let label = match ctx {
            Ctx::None => "deserialize/nocipher",
            Ctx::Client => "deserialize/client",
            Ctx::Server => "deserialize/server",
        };
        let kind = c.no_panic(label, detail, || world.decode(ctx, &data, |r| outcome_kind(&r)));
        let cname = match ctx {
            Ctx::None => "none",
            Ctx::Client => "client",
            Ctx::Server => "server",
        };
        c.inc(&format!("decoded_{cname}"));
        if let Some(k) = kind {
            if k.0 < 10 {
                c.inc(&format!("ok_{cname}"));
                if k.1 >= 4 {
                    c.inc(&format!("authenticated_{cname}"));
                }
                if k.0 == 1 {
                    c.inc("cookie_recovered");
                }
            } else {
                c.inc(&format!("err_{cname}"));
            }
            c.sig_of(&(class, ctx, k, version));
        }
    }
    if c.wants_sample() && class >= 3 {
        c.sample(|| json!({"class": CLASS_NAMES[class], "len": data.len(), "datagram_hex": hex(&data[..data.len().min(160)])}));
    }
}

thread_local! {
    static FUZZ_WORLD: World = World::new(&mut crate::core::Rng::new(0x5EED_C23));
}

/// byte-driven entry (libFuzzer tier / `verif-driver bytes C23 <file>`): the three key contexts of a fixed
/// world (fixed server keys and session keys, so coverage feedback is stable across executions)
pub fn fuzz_bytes(c: &mut Case, data: &[u8]) {
    if data.len() > 4096 {
        return;
    }
    FUZZ_WORLD.with(|world| {
        for ctx in ALL_CTX {
            let label = match ctx {
                Ctx::None => "deserialize/nocipher",
                Ctx::Client => "deserialize/client",
                Ctx::Server => "deserialize/server",
            };
            c.no_panic(label, || json!({"context": format!("{ctx:?}"), "class": "fuzz", "datagram_hex": hex(data)}), || world.decode(ctx, data, |r| outcome_kind(&r)));
        }
    });
}

/// seed corpus for the fuzz tier: one input of every generator class, built with the fixed fuzz world
pub fn fuzz_corpus(n: usize) -> Vec<Vec<u8>> {
    let mut rng = crate::core::Rng::new(0xC0FFEE);
    FUZZ_WORLD.with(|world| (0..n).map(|i| pktgen::input_of_class(&mut rng, world, i % CLASS_NAMES.len())).collect())
}
