//! C35 — pool sources are distinct, bounded and respect the ignore list.
//!
//! Events: the `SpawnEvent` stream of the REAL `PoolSpawner` and the removal
//! events the harness (acting as the system) sends back.
//! Oracle: the monitor keeps its own set of active sources (created, not yet
//! removed) and checks at every create: the address is not on the ignore list,
//! no active source has the same address, and the set does not grow beyond count.
//! Workload: scripted DNS answers through the guarded resolver table (duplicates
//! inside one answer, overlaps between answers, ignored addresses, shrinking /
//! growing / empty / failing answers), removals in random order for every reason.
//! Mode A drives the spawner through the real `spawner_task` pacing loop on a
//! paused tokio clock; mode B calls the `Spawner` trait methods directly in the
//! order the loop would (try_spawn only while incomplete).

use crate::common::spawnsim::{DnsGuard, answer_json, dns_log_len, install_dns, universe};
use crate::core::{Case, Profiles, Prop, Tier};
use ntp_proto::ClockId;
use ntpd::verif::dns_inject::DnsAnswer;
use ntpd::verif::m::spawn::{
    SourceCreateParameters, SourceRemovalReason, SourceRemovedEvent, SpawnAction, SpawnEvent, Spawner, SystemEvent, spawner_task,
};
use ntpd::verif::spawnx::pool_spawner;
use serde_json::{Value, json};
use std::net::{IpAddr, SocketAddr};
use std::time::Duration;
use tokio::sync::mpsc;

pub static PROP: Prop = Prop {
    id: "C35",
    level: "exploration",
    rule: "case = one pool (count 1-6, universe of 2-10 addresses, 0-3 ignored addresses) with a script of 1-8 DNS answers \
           (subsets, duplicates inside an answer, overlaps with earlier answers, ignored addresses, empty and failing \
           answers; the last one repeats) and 4-24 steps of (let the spawner run, remove 0-3 active sources in random order \
           with a random reason). Even indices: through the real spawner_task on a paused clock; odd indices: direct \
           Spawner calls. Non-trivial = at least one create was observed; distinct signature = (mode, count, answer classes \
           used, removal reasons used, maximal number of active sources, number of creates bucket).",
    assumptions: &[
        "the guarded DNS injection point stands for the resolver; all answers carry the pool's port, so a server address is identified by its socket address",
        "a source is active from its create event until the harness (as the system) removes it; the harness only removes sources it has seen created, each once",
        "the NTS pool spawner is not exercised (needs a TLS key-exchange server); its identity reading (server name) is therefore not judged",
    ],
    profiles: Profiles::Strict,
    cases: |t| t.pick(12_000, 400_000),
    budget_s: |t| t.pick(40, 300),
    run,
    min_nontrivial: 100,
    required_counters: &[
        "creates",
        "removals",
        "lookups",
        "answers_with_duplicates",
        "answers_with_ignored",
        "answers_overlapping",
        "removed_demobilized",
        "removed_network_issue",
        "removed_unreachable",
        "mode_task",
        "mode_direct",
    ],
    exhaustive: false,
    crash_is_violation: false,
};

const NAME: &str = "pool.verif.test";
const PORT: u16 = 123;

struct Script {
    count: usize,
    uni: Vec<SocketAddr>,
    ignore: Vec<IpAddr>,
    answers: Vec<DnsAnswer>,
    classes: u32,
}

fn gen_script(c: &mut Case) -> Script {
    let count = c.rng.usize(1, 6);
    let n = c.rng.usize(2, 10);
    let uni = universe(n, PORT);
    let mut ignore: Vec<IpAddr> = Vec::new();
    if c.rng.chance(1, 2) {
        for _ in 0..c.rng.usize(1, 3) {
            let ip = c.rng.pick(&uni).ip();
            if !ignore.contains(&ip) {
                ignore.push(ip);
            }
        }
        if c.rng.chance(1, 4) {
            ignore.push("198.51.100.7".parse().unwrap());
        }
    }
    let n_ans = c.rng.usize(1, 8);
    let mut answers: Vec<DnsAnswer> = Vec::new();
    let mut classes = 0u32;
    let mut prev: Vec<SocketAddr> = Vec::new();
    for _ in 0..n_ans {
        let kind = c.rng.below(10);
        let mut v: Vec<SocketAddr> = Vec::new();
        match kind {
            0 => {
                answers.push(DnsAnswer::Error);
                classes |= 1;
                continue;
            }
            1 => {
                classes |= 2; // empty
            }
            2 => {
                // one address repeated
                let a = *c.rng.pick(&uni);
                for _ in 0..c.rng.usize(2, 4) {
                    v.push(a);
                }
            }
            3 => {
                // subset with duplicates sprinkled in
                for a in &uni {
                    if c.rng.bool() {
                        v.push(*a);
                    }
                }
                for _ in 0..c.rng.usize(1, 3) {
                    if !v.is_empty() {
                        let a = *c.rng.pick(&v);
                        v.push(a);
                    }
                }
            }
            4 => {
                // same as the previous answer (full overlap), maybe rotated
                v = prev.clone();
                if !v.is_empty() {
                    let r = c.rng.below(v.len() as u64) as usize;
                    v.rotate_left(r);
                }
            }
            5 => {
                // shrink: a strict prefix of the previous answer
                v = prev.clone();
                let keep = if v.is_empty() { 0 } else { c.rng.below(v.len() as u64) as usize };
                v.truncate(keep);
            }
            6 => {
                // grow: previous plus more
                v = prev.clone();
                for _ in 0..c.rng.usize(1, 3) {
                    v.push(*c.rng.pick(&uni));
                }
            }
            7 => {
                // the whole universe
                v = uni.clone();
            }
            8 => {
                // only ignored addresses (if any), else a single address
                v = uni.iter().filter(|a| ignore.contains(&a.ip())).cloned().collect();
                if v.is_empty() {
                    v.push(*c.rng.pick(&uni));
                }
            }
            _ => {
                let k = c.rng.usize(1, n);
                for _ in 0..k {
                    v.push(*c.rng.pick(&uni));
                }
            }
        }
        if c.rng.bool() {
            c.rng.shuffle(&mut v);
        }
        let mut sorted = v.clone();
        sorted.sort();
        sorted.dedup();
        if sorted.len() != v.len() {
            classes |= 4;
            c.inc("answers_with_duplicates");
        }
        if v.iter().any(|a| ignore.contains(&a.ip())) {
            classes |= 8;
            c.inc("answers_with_ignored");
        }
        if v.iter().any(|a| prev.contains(a)) {
            classes |= 16;
            c.inc("answers_overlapping");
        }
        if v.len() < prev.len() {
            classes |= 32;
        }
        if v.len() > prev.len() {
            classes |= 64;
        }
        prev = v.clone();
        answers.push(DnsAnswer::Addrs(v));
    }
    Script { count, uni, ignore, answers, classes }
}

struct Monitor {
    count: usize,
    ignore: Vec<IpAddr>,
    active: Vec<(ClockId, SocketAddr)>,
    log: Vec<Value>,
    creates: u64,
    max_active: usize,
    reasons: u8,
}

impl Monitor {
    fn on_create(&mut self, c: &mut Case, script: &Value, id: ClockId, addr: SocketAddr) {
        c.inc("creates");
        self.creates += 1;
        self.log.push(json!({"create": addr.to_string(), "id": format!("{id:?}")}));
        let active_now: Vec<String> = self.active.iter().map(|(_, a)| a.to_string()).collect();
        let detail = |log: &Vec<Value>| json!({"script": script, "events": log, "active_before_this_create": active_now});
        if self.ignore.contains(&addr.ip()) {
            c.violation(
                "ignored-address-created",
                format!("a source was created for {addr}, which is on the pool's ignore list"),
                detail(&self.log),
            );
        }
        if self.active.iter().any(|(_, a)| *a == addr) {
            c.violation(
                "duplicate-active-address",
                format!("a source was created for {addr} while another active source of the pool has the same address"),
                detail(&self.log),
            );
        }
        if self.active.len() + 1 > self.count {
            c.violation(
                "more-active-than-count",
                format!("create for {addr} makes {} active sources, configured count is {}", self.active.len() + 1, self.count),
                detail(&self.log),
            );
        }
        self.active.push((id, addr));
        self.max_active = self.max_active.max(self.active.len());
    }

    fn pick_removal(&mut self, c: &mut Case) -> Option<(ClockId, SourceRemovalReason)> {
        if self.active.is_empty() {
            return None;
        }
        let i = c.rng.below(self.active.len() as u64) as usize;
        let (id, addr) = self.active.remove(i);
        let (reason, name, bit) = match c.rng.below(3) {
            0 => (SourceRemovalReason::Demobilized, "removed_demobilized", 1),
            1 => (SourceRemovalReason::NetworkIssue, "removed_network_issue", 2),
            _ => (SourceRemovalReason::Unreachable, "removed_unreachable", 4),
        };
        c.inc("removals");
        c.inc(name);
        self.reasons |= bit;
        self.log.push(json!({"remove": addr.to_string(), "id": format!("{id:?}"), "reason": name}));
        Some((id, reason))
    }
}

fn ntp_params(ev: &SpawnEvent) -> Option<(ClockId, SocketAddr)> {
    match &ev.action {
        SpawnAction::Create(SourceCreateParameters::Ntp(p)) => Some((p.id, p.addr)),
        _ => None,
    }
}

fn run(c: &mut Case) {
    let script = gen_script(c);
    let script_json = json!({
        "count": script.count,
        "ignore": script.ignore.iter().map(|i| i.to_string()).collect::<Vec<_>>(),
        "dns_answers_in_order_last_repeats": script.answers.iter().map(answer_json).collect::<Vec<_>>(),
    });
    install_dns(NAME, PORT, script.answers.clone());
    let _guard = DnsGuard;
    let mut mon = Monitor {
        count: script.count,
        ignore: script.ignore.clone(),
        active: Vec::new(),
        log: Vec::new(),
        creates: 0,
        max_active: 0,
        reasons: 0,
    };
    let steps = c.rng.usize(4, 24);
    let via_task = c.idx % 2 == 0;
    let rt = match tokio::runtime::Builder::new_current_thread().enable_all().start_paused(true).build() {
        Ok(rt) => rt,
        Err(e) => {
            c.harness_error(format!("runtime: {e}"));
            return;
        }
    };
    let spawner = pool_spawner(NAME, PORT, script.count, script.ignore.clone());
    if via_task {
        c.inc("mode_task");
        rt.block_on(async {
            let (action_tx, mut action_rx) = mpsc::channel::<SpawnEvent>(32);
            let (notify_tx, notify_rx) = mpsc::channel::<SystemEvent>(32);
            let task = tokio::spawn(spawner_task(spawner, action_tx, notify_rx));
            for _ in 0..steps {
                // let virtual time pass: the spawner runs whenever it is allowed to
                let dt = *c.rng.pick(&[1u64, 1, 300, 999, 1000, 1001, 1500, 3000]);
                tokio::time::sleep(Duration::from_millis(dt)).await;
                mon.log.push(json!({"virtual_ms_passed": dt}));
                // act as the system: register everything that was created
                while let Ok(ev) = action_rx.try_recv() {
                    if let Some((id, addr)) = ntp_params(&ev) {
                        mon.on_create(c, &script_json, id, addr);
                    }
                    let SpawnAction::Create(params) = ev.action;
                    if notify_tx.send(SystemEvent::SourceRegistered(params)).await.is_err() {
                        break;
                    }
                }
                let n_rm = *c.rng.pick(&[0usize, 0, 1, 1, 2, 3, 6]);
                for _ in 0..n_rm {
                    if let Some((id, reason)) = mon.pick_removal(c) {
                        if notify_tx.send(SystemEvent::source_removed(id, reason)).await.is_err() {
                            break;
                        }
                    }
                    if c.rng.chance(1, 3) {
                        // sometimes let the spawner see the removals one at a time
                        tokio::time::sleep(Duration::from_millis(1)).await;
                    }
                }
                if task.is_finished() {
                    break;
                }
            }
            // final drain so that late creates are judged too
            tokio::time::sleep(Duration::from_millis(2500)).await;
            while let Ok(ev) = action_rx.try_recv() {
                if let Some((id, addr)) = ntp_params(&ev) {
                    mon.on_create(c, &script_json, id, addr);
                }
            }
            drop(notify_tx);
            match task.await {
                Ok(_) => {}
                Err(e) if e.is_panic() => {
                    c.inc("spawner_task_panicked_not_judged");
                }
                Err(_) => {}
            }
        });
    } else {
        c.inc("mode_direct");
        rt.block_on(async {
            let mut spawner = spawner;
            let (action_tx, mut action_rx) = mpsc::channel::<SpawnEvent>(64);
            for _ in 0..steps {
                // one iteration of the pacing loop: attempt only while incomplete
                let rounds = *c.rng.pick(&[1usize, 1, 1, 2, 3]);
                for _ in 0..rounds {
                    if !spawner.is_complete() {
                        c.inc("spawn_rounds");
                        mon.log.push(json!("try_spawn"));
                        let r = crate::common::spawnsim::guard_async(spawner.try_spawn(&action_tx)).await;
                        if r.is_err() {
                            c.inc("spawner_panicked_not_judged");
                            return;
                        }
                    }
                    while let Ok(ev) = action_rx.try_recv() {
                        if let Some((id, addr)) = ntp_params(&ev) {
                            mon.on_create(c, &script_json, id, addr);
                        }
                        let SpawnAction::Create(params) = ev.action;
                        let _ = spawner.handle_registered(params).await;
                    }
                }
                let n_rm = *c.rng.pick(&[0usize, 1, 1, 2, 3, 6]);
                for _ in 0..n_rm {
                    if let Some((id, reason)) = mon.pick_removal(c) {
                        let _ = spawner.handle_source_removed(SourceRemovedEvent { id, reason }).await;
                    }
                }
            }
        });
    }
    c.count("lookups", dns_log_len() as u64);
    if mon.creates > 0 {
        c.sig_of(&(via_task, script.count, script.classes, mon.reasons, mon.max_active, mon.creates.min(12)));
    }
    c.sample(|| json!({"mode": if via_task { "spawner_task" } else { "direct" }, "script": script_json, "creates": mon.creates, "max_active": mon.max_active,
                       "events": mon.log.iter().take(40).collect::<Vec<_>>()}));
}
