//! C20 — rate limiting answers to the client's own request rate.
//!
//! Events: (A) `ServerAction` + registered reason of the real `Server::handle` over sequences of
//! datagrams from a pool of addresses, with the hooked slot index of the private cache as slot
//! knowledge (independently: cache size 1, where every address shares the slot); (B) the private
//! `TimestampedCache` driven directly with synthetic `Instant`s around the cut-off.
//! Oracle: reference model "last list-passing request per address / last user per slot".

use std::collections::HashMap;
use std::net::IpAddr;
use std::time::{Duration, Instant};

use crate::common::srvsim::{self as sim, ListVerdict};
use crate::core::{Case, Profiles, Prop, Tier, hex};
use ntp_proto::ServerReason;
use ntp_proto::verif::server::a5 as hcache;
use serde_json::json;

pub static PROP: Prop = Prop {
    id: "C20",
    level: "exploration",
    rule: "even cases (A): one real Server with cache size 0/1/2/8/64, cut-off 0 or 1 h (verdicts independent of wall-clock), random \
           deny/allow lists in half of them, 2-50 client addresses (some blocked by the lists), 40-120 datagrams (valid, malformed, \
           NTS) in random order with repeats; odd cases (B): the private TimestampedCache with sizes 1/2/8/64, cut-offs 1 ns..1 h and \
           synthetic instants whose gaps sit at cutoff-1ns / cutoff / cutoff+1ns / far below / far above. Non-trivial = one handled \
           event; distinct = (part, cache size, cut-off class, passes lists?, same slot owner?, gap class, pool size class, datagram class, verdict).",
    assumptions: &[
        "'within the cutoff' in the second sentence of the statement is read like the first sentence: less than the cut-off ago; a gap of exactly the cut-off must be allowed",
        "a request 'passed the access lists' by the monitor's own subnet matcher; cases with an address whose list membership the statement leaves open (mapped form inside an IPv6 subnet) are dropped",
        "an address is an IpAddr value: 1.2.3.4 and ::ffff:1.2.3.4 are not mixed inside a case",
        "slot knowledge comes from the hooked index function of the real cache (and from size 1 without any hook); synthetic instants are monotone",
    ],
    profiles: Profiles::Ship,
    cases: |t| t.pick(60_000, 400_000),
    budget_s: |t| t.pick(40, 400),
    run,
    min_nontrivial: 200,
    required_counters: &[
        "a_events", "a_limited_verdicts", "a_completeness_checked", "a_soundness_checked", "a_slot_taken_by_other", "a_blocked_between_repeats", "a_size0_events",
        "a_cutoff0_repeats", "a_size1_checked", "b_events", "b_gap_equal", "b_gap_minus_1ns", "b_gap_plus_1ns", "b_denied", "b_slot_taken_by_other", "b_repeat_while_denied",
    ],
    exhaustive: false,
    crash_is_violation: false,
};

fn run(c: &mut Case) {
    if c.idx % 2 == 0 { part_a(c) } else { part_b(c) }
}

fn part_a(c: &mut Case) {
    let recv = c.rng.u64();
    let lists = c.rng.bool();
    let mut cfg = sim::gen_cfg(&mut c.rng, sim::CfgOpts { lists, rate: sim::RateMode::Any, require_nts: false, version_subsets: false });
    if c.rng.chance(1, 3) {
        cfg.cache_size = 1;
    }
    if c.rng.chance(2, 3) {
        cfg.cutoff = Duration::from_secs(3600);
    }
    let (spec, info) = sim::gen_info(&mut c.rng, recv, false);
    let keys = match sim::gen_keys(&mut c.rng, 1, 1) {
        Ok(k) => k,
        Err(e) => return c.harness_error(e),
    };
    let mut w = match sim::build_world(cfg, spec, info, keys, recv) {
        Ok(w) => w,
        Err(e) => return c.harness_error(e),
    };
    // address pool
    let n_addr = c.rng.usize(2, 50);
    let mut pool: Vec<IpAddr> = Vec::new();
    while pool.len() < n_addr {
        let ip = if c.rng.chance(2, 3) { sim::gen_client_passing(&mut c.rng, &w.cfg).unwrap_or_else(|| sim::gen_client(&mut c.rng, &w.cfg)) } else { sim::gen_client(&mut c.rng, &w.cfg) };
        if pool.iter().any(|p| sim::canon(*p) == sim::canon(ip)) {
            continue;
        }
        let (dv, av) = (sim::list_verdict(&w.cfg.deny, ip), sim::list_verdict(&w.cfg.allow, ip));
        if dv == ListVerdict::Ambiguous || (dv == ListVerdict::Out && av == ListVerdict::Ambiguous) {
            continue;
        }
        pool.push(ip);
    }
    let passes = |ip: IpAddr| sim::list_verdict(&w.cfg.deny, ip) == ListVerdict::Out && sim::list_verdict(&w.cfg.allow, ip) == ListVerdict::In;
    let size = w.cfg.cache_size;
    let limiting = size > 0 && !w.cfg.cutoff.is_zero();
    if hcache::cache_len(&w.server) != size {
        return c.harness_error("cache length differs from the configured size");
    }
    let mut spy = sim::Spy::default();
    let mut last_pass: HashMap<IpAddr, usize> = HashMap::new();
    let mut slot_owner: HashMap<usize, IpAddr> = HashMap::new();
    let mut last_any: Option<IpAddr> = None; // size-1 knowledge without the hook
    let mut blocked_since: HashMap<IpAddr, bool> = HashMap::new();
    let mut script: Vec<serde_json::Value> = Vec::new();
    let hot = c.rng.usize(1, 4).min(pool.len());
    let n_events = c.rng.usize(40, 120);
    for k in 0..n_events {
        let ip = if c.rng.chance(1, 2) { pool[c.rng.usize(0, hot - 1)] } else { *c.rng.pick(&pool) };
        let req = match c.rng.below(8) {
            0 => sim::gen_raw(&mut c.rng),
            1 => match sim::gen_valid(&mut c.rng, sim::Flavor::V4Nts, &w.keys, sim::NtsPlan::Good) {
                Ok(r) => r,
                Err(e) => return c.harness_error(e),
            },
            _ => match sim::gen_valid(&mut c.rng, sim::Flavor::V4Plain, &w.keys, sim::NtsPlan::Good) {
                Ok(r) => r,
                Err(e) => return c.harness_error(e),
            },
        };
        let pass = passes(ip);
        let idx = hcache::cache_index(&w.server, ip);
        let server = &mut w.server;
        let h = match crate::core::guard(|| sim::handle_like_daemon(server, &mut spy, ip, recv.wrapping_add(k as u64), &req.bytes)) {
            Ok(h) => h,
            Err(_) => {
                c.inc("panics_not_judged_here");
                return;
            }
        };
        c.inc("a_events");
        let limited = h.regs.iter().any(|r| r.reason == ServerReason::RateLimit);
        script.push(json!({"k": k, "client": ip.to_string(), "passes_lists": pass, "slot": idx, "answered": h.reply.is_some(), "rate_limited": limited, "class": req.truth.class}));
        let cutoff_class = if w.cfg.cutoff.is_zero() { 0u8 } else { 1 };
        let same_owner = idx.map(|i| slot_owner.get(&i) == Some(&ip));
        c.sig_of(&("A", size, cutoff_class, pass, same_owner, last_pass.contains_key(&ip), limited, h.reply.is_some(), pool.len() / 10, req.truth.class.as_str()));
        let detail = |script: &Vec<serde_json::Value>| json!({"config": w.cfg.json(), "history": script, "datagram": hex(&req.bytes)});
        if size == 0 {
            c.inc("a_size0_events");
        }
        if w.cfg.cutoff.is_zero() && pass && last_pass.contains_key(&ip) {
            c.inc("a_cutoff0_repeats");
        }
        // ---- soundness (no internals) ----
        if limited {
            c.inc("a_limited_verdicts");
            c.inc("a_soundness_checked");
            if size == 0 {
                c.violation("rate/limited-with-cache-size-0", "a client was rate-limited although the cache size is zero", detail(&script));
            } else if !pass {
                c.violation("rate/limited-without-passing-lists", "a RateLimit verdict for a request that does not pass the access lists", detail(&script));
            } else if !last_pass.contains_key(&ip) {
                c.violation("rate/limited-without-own-previous-request", "a client was rate-limited without an earlier list-passing request of its own", detail(&script));
            } else if w.cfg.cutoff.is_zero() {
                c.violation("rate/limited-with-cutoff-0", "a client was rate-limited although its previous request cannot be less than a zero cut-off ago", detail(&script));
            }
        }
        // ---- completeness (slot knowledge) ----
        if pass && limiting && last_pass.contains_key(&ip) {
            let undisturbed = idx.map(|i| slot_owner.get(&i) == Some(&ip)).unwrap_or(false);
            if undisturbed {
                c.inc("a_completeness_checked");
                if blocked_since.get(&ip).copied().unwrap_or(false) {
                    c.inc("a_blocked_between_repeats");
                }
                if h.reply.is_some() || !limited {
                    c.violation(
                        if h.reply.is_some() { "rate/repeat-within-cutoff-answered" } else { "rate/repeat-within-cutoff-not-registered-as-ratelimit" },
                        "a client repeated a list-passing request within the cut-off with its cache slot untouched by others, and was not rate-limited",
                        detail(&script),
                    );
                }
            } else {
                c.inc("a_slot_taken_by_other");
            }
            if size == 1 {
                // no hook needed: every address shares the only slot
                c.inc("a_size1_checked");
                if last_any == Some(ip) && h.reply.is_some() {
                    c.violation("rate/size1-repeat-answered", "cache size 1: the same address sent two consecutive list-passing requests and the second was answered", detail(&script));
                }
            }
        }
        // ---- model update ----
        if pass {
            last_pass.insert(ip, k);
            if let Some(i) = idx {
                slot_owner.insert(i, ip);
            }
            last_any = Some(ip);
            for (_, b) in blocked_since.iter_mut() {
                // nothing: only blocked traffic is tracked below
                let _ = b;
            }
            blocked_since.insert(ip, false);
        } else {
            // a blocked request happened: remember it for every address waiting to repeat
            for (_, b) in blocked_since.iter_mut() {
                *b = true;
            }
        }
        if k == 0 {
            c.sample(|| json!({"part": "A", "config": w.cfg.json(), "addresses": pool.len()}));
        }
    }
}

fn part_b(c: &mut Case) {
    let size = *c.rng.pick(&[1usize, 1, 2, 8, 64]);
    let cutoff = match c.rng.below(6) {
        0 => Duration::from_nanos(1),
        1 => Duration::from_nanos(c.rng.range(2, 1000) as u64),
        2 => Duration::from_millis(c.rng.range(1, 5000) as u64),
        3 => Duration::from_secs(3600),
        4 => Duration::ZERO,
        _ => Duration::from_nanos(c.rng.range(1, 1_000_000_000) as u64),
    };
    let mut cache = hcache::CacheProbe::new(size);
    let n_addr = c.rng.usize(1, 6);
    let pool: Vec<IpAddr> = (0..n_addr).map(|_| sim::gen_client(&mut c.rng, &sim::CfgSpec::open())).collect();
    let base = Instant::now();
    let mut now = Duration::from_secs(10);
    // model: per slot (owner, time of the last request mapped to it)
    let mut slots: HashMap<usize, (IpAddr, Duration)> = HashMap::new();
    let mut last_own: HashMap<IpAddr, (Duration, bool)> = HashMap::new();
    let mut script = Vec::new();
    for k in 0..c.rng.usize(20, 80) {
        let (gap, gap_class) = match c.rng.below(7) {
            0 => (cutoff, "equal"),
            1 if cutoff > Duration::from_nanos(1) => (cutoff - Duration::from_nanos(1), "minus1ns"),
            2 => (cutoff + Duration::from_nanos(1), "plus1ns"),
            3 => (cutoff / 3, "below"),
            4 => (cutoff * 3 + Duration::from_nanos(5), "above"),
            5 => (Duration::ZERO, "zero"),
            _ => (Duration::from_nanos(c.rng.below(2 * cutoff.as_nanos().min(1 << 40) as u64 + 2)), "random"),
        };
        now += gap;
        let ip = *c.rng.pick(&pool);
        let Some(idx) = cache.index(ip) else { return c.harness_error("index on a non-empty cache returned None") };
        let allowed = cache.is_allowed(ip, base + now, cutoff);
        c.inc("b_events");
        let prev = slots.get(&idx).copied();
        let expect = match prev {
            Some((owner, t)) if owner == ip => now - t >= cutoff,
            _ => true,
        };
        let same = matches!(prev, Some((o, _)) if o == ip);
        if same {
            match gap_class {
                "equal" if now - prev.unwrap().1 == cutoff => c.inc("b_gap_equal"),
                "minus1ns" if now - prev.unwrap().1 + Duration::from_nanos(1) == cutoff => c.inc("b_gap_minus_1ns"),
                "plus1ns" if now - prev.unwrap().1 == cutoff + Duration::from_nanos(1) => c.inc("b_gap_plus_1ns"),
                _ => {}
            }
            if let Some((_, was_allowed)) = last_own.get(&ip) {
                if !was_allowed {
                    c.inc("b_repeat_while_denied");
                }
            }
        } else if prev.is_some() && last_own.contains_key(&ip) {
            c.inc("b_slot_taken_by_other");
        }
        if !allowed {
            c.inc("b_denied");
        }
        script.push(json!({"k": k, "t_ns": now.as_nanos() as u64, "client": ip.to_string(), "slot": idx, "allowed": allowed, "expected": expect}));
        let since = prev.map(|(_, t)| (now - t).as_nanos() as i128 - cutoff.as_nanos() as i128);
        let since_class = since.map(|d| d.signum() * (if d.abs() <= 1 { 1 } else { 2 }));
        c.sig_of(&("B", size, cutoff.is_zero(), same, since_class, allowed));
        if allowed != expect {
            let sig = if expect {
                if same && now - prev.unwrap().1 == cutoff { "cache/denied-at-exactly-cutoff" } else if !same { "cache/denied-although-slot-held-by-other" } else { "cache/denied-after-cutoff" }
            } else {
                "cache/allowed-within-cutoff"
            };
            c.violation(sig, format!("TimestampedCache::is_allowed returned {allowed}, the statement implies {expect}"), json!({"size": size, "cutoff_ns": cutoff.as_nanos() as u64, "history": script}));
            return;
        }
        slots.insert(idx, (ip, now));
        last_own.insert(ip, (now, allowed));
        if k == 0 {
            c.sample(|| json!({"part": "B", "size": size, "cutoff_ns": cutoff.as_nanos() as u64}));
        }
    }
}
