#!/bin/bash
# MANIFEST.setup_cmd: builds the framework offline from files on disk only.
set -e
cd "$(dirname "$0")"
export CARGO_NET_OFFLINE=true
mkdir -p evidence replays work
# TLS test PKI for the key-exchange monitors (C28, C29); idempotent
tools/gen_pki.sh >/dev/null 2>&1 || tools/gen_pki.sh
( cd driver && cargo build --offline --profile ship 2>&1 | tail -2 ) &
( cd driver && cargo build --offline --profile strict 2>&1 | tail -2 ) &
wait
test -x target/ship/verif-driver && test -x target/strict/verif-driver
echo "setup ok"
