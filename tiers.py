"""Sanitizer tiers run by ./check in addition to the native worker runs.

Every tier executes the SAME monitors (driver/src/props) on the SAME case index
space, under an instrumented execution engine:

  miri      cargo +nightly miri run  (UB / data-race / leak interpreter; ~1000x slower, tiny case counts)
  valgrind  memcheck on the release-semantics driver (the only tier that sees the aws-lc C code)
  fuzz      cargo +nightly fuzz (libFuzzer + ASan) on the byte-driven entry points in driver/src/fuzz_table.rs
  tsan      ThreadSanitizer build of the driver (-Zbuild-std) for the threaded C37 stress

A tier returns {"status": "ok"|"violation"|"inconclusive"|"skipped", ...counts..., "violations": [...]}.
Harness problems (tool missing, build failure, timeout) are 'skipped'/'inconclusive', never a violation.
"""
import glob
import json
import os
import re
import shutil
import subprocess
import time

ROOT = os.path.dirname(os.path.abspath(__file__))
DRIVER = os.path.join(ROOT, "driver")
CRATES = ["ntp-proto", "ntpd", "statime-base", "statime-wire", "statime-algo", "statime-csptp", "statime-netptp"]


def _paths_cfg(repo):
    if repo == "/repo":
        return []
    return ["--config", "paths=[%s]" % ",".join('"%s/%s"' % (repo, c) for c in CRATES)]


def _env(extra=None):
    env = dict(os.environ)
    env["CARGO_NET_OFFLINE"] = "true"
    if os.environ.get("VERIF_KEEP_ONLY") is None:
        env.pop("VERIF_ONLY", None)
    env.pop("RUSTFLAGS", None)
    if extra:
        env.update(extra)
    return env


def _merge_reports(files):
    ev = 0
    viol = {}
    counters = {}
    herr = []
    for f in files:
        if not os.path.exists(f):
            continue
        try:
            r = json.load(open(f))
        except Exception:
            continue
        ev += r.get("evaluations", 0)
        for v in r.get("violations", []):
            viol.setdefault(v["sig"], v)
        for k, n in r.get("counters", {}).items():
            counters[k] = counters.get(k, 0) + n
        herr += r.get("harness_errors", [])
    return ev, viol, counters, herr


def run_miri(t, pid, tier, seed, repo, target):
    tdir = os.environ.get("VERIF_MIRI_TARGET", os.path.join(ROOT, "target-miri"))
    wdir = os.path.join(ROOT, "work", pid + "-miri")
    shutil.rmtree(wdir, ignore_errors=True)
    os.makedirs(wdir, exist_ok=True)
    procs_n = int(t.get("procs", 8))
    cases = int(t.get("cases_quick" if tier == "quick" else "cases_thorough", t.get("cases", 4)))
    timeout = int(t.get("timeout_s", 900))
    base = ["cargo", "+nightly", "miri", "run", "--offline"] + _paths_cfg(repo) + ["--"]
    flags = "-Zmiri-disable-isolation " + t.get("miriflags", "")
    env = _env({"CARGO_TARGET_DIR": tdir, "MIRIFLAGS": flags})
    t0 = time.time()
    # build once (runs `list`), so the parallel runs below only execute
    b = subprocess.run(base + ["list"], cwd=DRIVER, env=env, stdout=subprocess.PIPE, stderr=subprocess.PIPE, text=True, timeout=3600)
    if b.returncode != 0:
        return {"status": "skipped", "reason": "miri build failed: " + b.stderr[-400:]}
    procs = []
    for sh in range(procs_n):
        out = os.path.join(wdir, "miri-%d.json" % sh)
        e = dict(env)
        e["MIRIFLAGS"] = flags + " -Zmiri-seed=%d" % (seed * 100 + sh)
        cmd = base + ["run", pid, "--tier", "quick", "--seed", str(seed), "--shard", str(sh), "--nshards", str(procs_n),
                      "--max-cases", str(cases), "--out", out]
        errf = open(out + ".stderr", "w")
        procs.append((sh, out, subprocess.Popen(cmd, cwd=DRIVER, env=e, stdout=errf, stderr=errf)))
    viol = {}
    ub = 0
    unsupported = 0
    other_fail = 0
    timed_out = 0
    deadline = time.time() + timeout
    for sh, out, p in procs:
        try:
            rc = p.wait(timeout=max(1, deadline - time.time()))
        except subprocess.TimeoutExpired:
            p.kill()
            p.wait()
            timed_out += 1
            continue
        err = open(out + ".stderr").read()
        if rc != 0:
            m = re.search(r"error: (Undefined Behavior|.*[Dd]ata race.*|memory leaked.*)[^\n]*", err)
            if "unsupported operation" in err and not m:
                unsupported += 1
                continue
            if not m:
                other_fail += 1
                continue
            if m:
                ub += 1
                line = m.group(0)[:160]
                where = re.search(r"--> ([^\n]+)", err)
                site = re.sub(r":\d+:\d+$", "", where.group(1).strip()) if where else "?"
                site = site.replace(repo + "/", "")
                sig = "miri/%s@%s" % (re.sub(r"\d+", "#", line)[:90], site)
                viol.setdefault(sig, {"sig": sig, "what": "Miri report while running %s shard %d: %s" % (pid, sh, line),
                                      "detail": {"stderr_tail": err[-1500:]}, "idx": 0, "profile": "strict"})
    ev, v2, counters, herr = _merge_reports([o for _, o, _ in procs])
    for k, v in v2.items():
        viol.setdefault(k, v)
    status = "ok"
    if viol:
        status = "violation"
    elif ev == 0:
        status = "inconclusive"
    return {"status": status, "engine": "cargo +nightly miri run (same monitors, interpreted)", "cases_executed": ev,
            "processes": procs_n, "ub_reports": ub, "unsupported_operation_shards": unsupported, "timed_out_shards": timed_out, "shards_failed_for_other_reasons": other_fail,
            "events": counters, "wall_s": round(time.time() - t0, 1), "violations": list(viol.values()),
            "reason": "no case completed under Miri" if status == "inconclusive" else ""}


def run_valgrind(t, pid, tier, seed, repo, target):
    if shutil.which("valgrind") is None:
        return {"status": "skipped", "reason": "valgrind not installed"}
    binp = os.path.join(target, "ship", "verif-driver")
    wdir = os.path.join(ROOT, "work", pid + "-valgrind")
    shutil.rmtree(wdir, ignore_errors=True)
    os.makedirs(wdir, exist_ok=True)
    procs_n = int(t.get("procs", 8))
    cases = int(t.get("cases_quick" if tier == "quick" else "cases_thorough", t.get("cases", 4)))
    timeout = int(t.get("timeout_s", 900))
    t0 = time.time()
    procs = []
    for sh in range(procs_n):
        out = os.path.join(wdir, "vg-%d.json" % sh)
        cmd = ["valgrind", "--error-exitcode=97", "--leak-check=no", "-q", "--num-callers=20", binp, "run", pid, "--tier", "quick",
               "--seed", str(seed), "--shard", str(sh), "--nshards", str(procs_n), "--max-cases", str(cases), "--out", out]
        errf = open(out + ".stderr", "w")
        procs.append((sh, out, subprocess.Popen(cmd, cwd=wdir, stdout=errf, stderr=errf)))
    viol = {}
    reports = 0
    timed_out = 0
    deadline = time.time() + timeout
    for sh, out, p in procs:
        try:
            rc = p.wait(timeout=max(1, deadline - time.time()))
        except subprocess.TimeoutExpired:
            p.kill()
            p.wait()
            timed_out += 1
            continue
        err = open(out + ".stderr").read()
        blocks = re.findall(r"==\d+== ((?:Invalid|Conditional|Use of|Mismatched|Source and|Syscall param)[^\n]*)\n((?:==\d+==    (?:at|by)[^\n]*\n)+)", err)
        for kind, stack in blocks:
            reports += 1
            frames = re.findall(r"(?:at|by) 0x[0-9A-F]+: ([^\n(]+)", stack)
            first = next((f.strip() for f in frames if "ntp" in f or "statime" in f), frames[0].strip() if frames else "?")
            sig = "valgrind/%s@%s" % (re.sub(r"\d+", "#", kind)[:60], first[:80])
            viol.setdefault(sig, {"sig": sig, "what": "valgrind memcheck: %s in %s" % (kind, first), "detail": {"stack": stack[:1500]},
                                  "idx": 0, "profile": "ship"})
    ev, v2, counters, herr = _merge_reports([o for _, o, _ in procs])
    for k, v in v2.items():
        viol.setdefault(k, v)
    status = "violation" if viol else ("ok" if ev > 0 else "inconclusive")
    return {"status": status, "engine": "valgrind memcheck on the ship driver", "cases_executed": ev, "processes": procs_n,
            "memcheck_reports": reports, "timed_out_shards": timed_out, "events": counters, "wall_s": round(time.time() - t0, 1),
            "violations": list(viol.values()), "reason": "no case completed under valgrind" if status == "inconclusive" else ""}


def run_fuzz(t, pid, tier, seed, repo, target):
    """libFuzzer + ASan on the byte-driven entry of the property (driver/src/fuzz_table.rs). The fuzz target
    calls the same oracle; an oracle failure aborts the target and leaves an artifact, which is then replayed
    natively (`verif-driver bytes`) to obtain the violation signature."""
    fdir = os.path.join(ROOT, "fuzz")
    if not os.path.exists(os.path.join(fdir, "Cargo.toml")):
        return {"status": "skipped", "reason": "fuzz crate not present"}
    tdir = os.environ.get("VERIF_FUZZ_TARGET", os.path.join(ROOT, "target-fuzz"))
    tgt = pid.lower()
    secs = int(t.get("secs_quick" if tier == "quick" else "secs_thorough", 30))
    forks = int(t.get("forks", 8))
    wdir = os.path.join(ROOT, "work", pid + "-fuzz")
    corpus = os.path.join(wdir, "corpus")
    art = os.path.join(wdir, "artifacts")
    shutil.rmtree(wdir, ignore_errors=True)
    os.makedirs(corpus)
    os.makedirs(art)
    native = os.path.join(target, "strict", "verif-driver")
    # seed corpus from the monitor's own structure-aware generator
    subprocess.run([native, "corpus", pid, corpus, str(int(t.get("corpus", 300)))], stdout=subprocess.DEVNULL, stderr=subprocess.DEVNULL, timeout=600)
    n_seeds = len(os.listdir(corpus))
    env = _env({"CARGO_TARGET_DIR": tdir, "RUSTFLAGS": "--cfg pendulum_project_ntpd_rs_verif --cap-lints warn -A missing_docs -A unused"})
    t0 = time.time()
    base = ["cargo", "+nightly", "fuzz"]
    common = ["--fuzz-dir", fdir]
    b = subprocess.run(base + ["build"] + common + [tgt], cwd=DRIVER, env=env, stdout=subprocess.PIPE, stderr=subprocess.STDOUT, text=True, timeout=7200)
    if b.returncode != 0:
        return {"status": "skipped", "reason": "fuzz build failed: " + b.stdout[-400:]}
    cmd = base + ["run"] + common + [tgt, corpus, "--", "-timeout=10", "-max_total_time=%d" % secs, "-fork=%d" % forks, "-ignore_timeouts=1", "-ignore_ooms=1",
                                     "-artifact_prefix=%s/" % art, "-seed=%d" % seed, "-max_len=%d" % int(t.get("max_len", 4096)), "-print_final_stats=1"]
    try:
        r = subprocess.run(cmd, cwd=DRIVER, env=env, stdout=subprocess.PIPE, stderr=subprocess.STDOUT, text=True, timeout=secs * 3 + 900)
        out = r.stdout
    except subprocess.TimeoutExpired as e:
        out = (e.stdout or b"").decode(errors="replace") if isinstance(e.stdout, bytes) else (e.stdout or "")
    execs = 0
    for m in re.finditer(r"#(\d+):? ", out):
        execs = max(execs, int(m.group(1)))
    cov = 0
    for m in re.finditer(r"cov: (\d+)", out):
        cov = max(cov, int(m.group(1)))
    viol = {}
    for f in sorted(glob.glob(os.path.join(art, "*"))):
        kind = os.path.basename(f).split("-")[0]
        if kind in ("timeout", "oom", "slow"):
            continue  # resource exhaustion is not a verdict
        data = open(f, "rb").read()
        keep = os.path.join(ROOT, "replays", "%s-fuzz-%s.bin" % (pid, os.path.basename(f)[-12:]))
        shutil.copy(f, keep)
        sig = "fuzz/%s/%s" % (tgt, kind)
        what = "libFuzzer/ASan artifact %s (%d bytes)" % (os.path.basename(f), len(data))
        try:
            rp = subprocess.run([native, "bytes", pid, f], stdout=subprocess.PIPE, stderr=subprocess.PIPE, text=True, timeout=120)
            m = re.search(r"VERIF-FUZZ-VIOLATION sig=(.*?) what=(.*)", rp.stdout)
            if m:
                sig, what = m.group(1).strip(), m.group(2).strip()[:300]
            elif rp.returncode == 0:
                sig = "fuzz/%s/%s/asan-only" % (tgt, kind)
        except Exception:
            pass
        viol.setdefault(sig, {"sig": sig, "what": what, "detail": {"input_hex": data[:2048].hex(), "artifact": keep}, "idx": 0, "profile": "strict"})
    status = "violation" if viol else ("ok" if execs > 0 else "inconclusive")
    return {"status": status, "engine": "cargo +nightly fuzz (libFuzzer + AddressSanitizer), same oracle as the driver", "executions": execs,
            "coverage_edges": cov, "seed_corpus": n_seeds, "seconds": secs, "forks": forks, "wall_s": round(time.time() - t0, 1),
            "violations": list(viol.values()), "reason": "fuzzer executed nothing" if status == "inconclusive" else ""}


def run_tsan(t, pid, tier, seed, repo, target):
    """C37 threaded stress (same engine common/selsim.rs and same offline oracle as the driver's monitor)
    built as the standalone crate /verif/tsan with -Zsanitizer=thread -Zbuild-std, so ThreadSanitizer
    watches the real wrapper, channel, source wrappers and Kalman code."""
    tdir = os.environ.get("VERIF_TSAN_TARGET", os.path.join(ROOT, "target-tsan"))
    crate = os.path.join(ROOT, "tsan")
    env = _env({"CARGO_TARGET_DIR": tdir,
                "RUSTFLAGS": "-Zsanitizer=thread --cfg pendulum_project_ntpd_rs_verif --cap-lints warn -A missing_docs -A unused -A unreachable_pub"})
    t0 = time.time()
    cfg = [] if repo == "/repo" else ["--config", 'paths=["%s/ntp-proto"]' % repo]
    b = subprocess.run(["cargo", "+nightly", "build", "--offline", "-Zbuild-std", "--target", "x86_64-unknown-linux-gnu"] + cfg,
                       cwd=crate, env=env, stdout=subprocess.PIPE, stderr=subprocess.STDOUT, text=True, timeout=3600)
    if b.returncode != 0:
        return {"status": "skipped", "reason": "tsan build failed: " + b.stdout[-400:]}
    binp = os.path.join(tdir, "x86_64-unknown-linux-gnu", "debug", "verif-tsan-c37")
    runs = int(t.get("runs", 5))
    histories = int(t.get("histories_quick" if tier == "quick" else "histories_thorough", 200))
    viol = {}
    reports = 0
    total_hist = 0
    estimates = 0
    harness = 0
    e2 = dict(env)
    e2["TSAN_OPTIONS"] = "halt_on_error=0 second_deadlock_stack=1 exitcode=66"
    for i in range(runs):
        try:
            r = subprocess.run([binp, str(histories), str(seed * 1000 + i)], env=e2, stdout=subprocess.PIPE, stderr=subprocess.PIPE, text=True,
                               timeout=int(t.get("timeout_s", 900)))
        except subprocess.TimeoutExpired:
            harness += 1
            continue
        err = r.stderr
        m = re.search(r"histories=(\d+) estimates_with_used=(\d+) oracle_findings=(\d+) harness_errors=(\d+)", err)
        if m:
            total_hist += int(m.group(1))
            estimates += int(m.group(2))
            harness += int(m.group(4))
        for om in re.finditer(r"ORACLE (C37/[^:]+): ([^\n]*)", err):
            sig = "tsan-run/" + om.group(1)
            viol.setdefault(sig, {"sig": sig, "what": "C37 oracle under the TSan build: " + om.group(2)[:300], "detail": {}, "idx": 0, "profile": "strict"})
        for blk in re.findall(r"WARNING: ThreadSanitizer: ([^\n]+)\n(.*?)\n\n", err, flags=re.S):
            reports += 1
            frames = re.findall(r"#\d+ ([^\s]+) ", blk[1])
            inrepo = [f for f in frames if "ntp_proto" in f]
            site = (inrepo[0] if inrepo else (frames[0] if frames else "?"))[:100]
            sig = "tsan/%s@%s" % (blk[0].split("(")[0].strip(), re.sub(r"::h[0-9a-f]{16}", "", site))
            viol.setdefault(sig, {"sig": sig, "what": "ThreadSanitizer: " + blk[0], "detail": {"report": blk[1][:1500]}, "idx": 0, "profile": "strict"})
    status = "violation" if viol else ("ok" if total_hist > 0 else "inconclusive")
    return {"status": status, "engine": "ThreadSanitizer build (-Zsanitizer=thread -Zbuild-std) of the C37 stress engine", "runs": runs,
            "histories_executed": total_hist, "estimates_with_used_sources": estimates, "tsan_reports": reports, "harness_errors": harness,
            "wall_s": round(time.time() - t0, 1), "violations": list(viol.values()),
            "reason": "no history completed under TSan" if status == "inconclusive" else ""}


def run(t, pid, tier, seed, repo, target):
    kind = t.get("kind", t.get("name"))
    fn = {"miri": run_miri, "valgrind": run_valgrind, "fuzz": run_fuzz, "tsan": run_tsan}.get(kind)
    if fn is None:
        return {"status": "skipped", "reason": "unknown tier kind %s" % kind}
    try:
        return fn(t, pid, tier, seed, repo, target)
    except subprocess.TimeoutExpired:
        return {"status": "inconclusive", "reason": "tier timed out (wall-clock watchdog)"}
